/-
C13 — HTML post-processing does not lose or alter safe markup.
Model: FeedVerif/Model/San.lean (sanitizer filter, resolver filter, serializer).
-/
import FeedVerif.Props.C03
import FeedVerif.Gen.RefUrls
import FeedVerif.Gen.Urls

namespace FeedVerif.San
open List

/-! ### escaping is the identity on harmless values -/

theorem flatMap_escChar_id (v : Str) (h : ∀ c ∈ v, c ≠ '<' ∧ c ≠ '>' ∧ c ≠ '"') : v.flatMap escChar = v := by
  induction v with
  | nil => rfl
  | cons c r ih =>
    have hc := h c (by simp)
    simp only [flatMap_cons, escChar, hc.1, hc.2.1, hc.2.2, ↓reduceIte, singleton_append]
    rw [ih (fun x hx => h x (by simp [hx]))]

theorem escAmp_id (v : Str) (h : ∀ c ∈ v, c ≠ '&') : escAmp v = v := by
  induction v with
  | nil => rfl
  | cons c r ih =>
    have hc := h c (by simp)
    unfold escAmp
    have : (c == '&' && !looksLikeRef r) = false := by simp [hc]
    rw [this]
    simp only [Bool.false_eq_true, ↓reduceIte]
    rw [ih (fun x hx => h x (by simp [hx]))]

/-- a value without `<`, `>`, `"`, `&` is emitted character for character -/
theorem escapeAttr_id (v : Str) (h : ∀ c ∈ v, c ≠ '<' ∧ c ≠ '>' ∧ c ≠ '"' ∧ c ≠ '&') : escapeAttr v = v := by
  unfold escapeAttr
  rw [flatMap_escChar_id v (fun c hc => ⟨(h c hc).1, (h c hc).2.1, (h c hc).2.2.1⟩)]
  exact escAmp_id v (fun c hc => (h c hc).2.2.2)

/-- an ampersand that starts a well-formed reference is left alone (no double escaping) -/
theorem escAmp_keeps_reference (r : Str) (h : looksLikeRef r = true) : escAmp ('&' :: r) = '&' :: escAmp r := by
  conv => lhs; unfold escAmp
  simp [h]

/-! ### safe start tags pass through -/

/-- attribute keys that take a special path in `cleanAttrs` -/
def plainKey (k : Str) : Prop := k ≠ s "style" ∧ k ≠ s "href" ∧ k ≠ s "xlink:href"

theorem filterMap_eq_map_of {α β : Type} (f : α → Option β) (g : α → β) (l : List α)
    (h : ∀ a ∈ l, f a = some (g a)) : l.filterMap f = l.map g := by
  induction l with
  | nil => rfl
  | cons a r ih =>
    simp only [filterMap_cons, h a (by simp), map_cons]
    rw [ih (fun x hx => h x (by simp [hx]))]

theorem cleanAttrs_keeps_allowed (o : Ops) (svg : Bool) (allowed : List Str) (attrs : List Attr)
    (hall : ∀ a ∈ normalizeAttrs attrs, allowed.contains a.1 = true ∧ plainKey a.1) :
    cleanAttrs o svg allowed [] attrs = (normalizeAttrs attrs).map fun a => (a.1, escapeAttr a.2) := by
  unfold cleanAttrs
  apply filterMap_eq_map_of
  intro a ha
  obtain ⟨k, v⟩ := a
  have hk := hall (k, v) ha
  simp only at hk ⊢
  have h1 : ¬ (k = s "style" ∧ allowed.contains (s "style") = true) := fun h => hk.2.1 h.1
  rw [if_neg h1, if_pos hk.1]
  have h2 : ¬ (mapGet [] k = s "href" ∨ mapGet [] k = s "xlink:href") := by
    rw [mapGet_nil]; exact fun h => h.elim hk.2.2.1 hk.2.2.2
  rw [if_neg h2, mapGet_nil]

/-- **An allow-listed HTML element with allow-listed plain attributes passes through**: same element,
exactly the normalised attribute list (lower-case names, duplicates collapsed, sorted, rel/type
values lower-cased), values only re-escaped — outside SVG, whatever the other counters are. -/
theorem safe_start_passes (t : Tables) (o : Ops) (isHtml : Bool) (st : St) (tag : Str) (attrs : List Attr)
    (htag : t.acc.contains tag = true) (hsvg : st.svgOK = 0) (hmath : st.mathmlOK = 0)
    (hall : ∀ a ∈ normalizeAttrs attrs, t.accA.contains a.1 = true ∧ plainKey a.1) :
    start t o isHtml st tag attrs =
      (st, some (.stag tag ((normalizeAttrs attrs).map fun a => (a.1, escapeAttr a.2)))) := by
  unfold start
  have h : ¬ (¬ t.acc.contains tag = true ∨ st.svgOK > 0) := by
    intro h; rcases h with h | h
    · exact h htag
    · omega
  rw [if_neg h]
  have hx : addXlink st attrs = attrs := by
    unfold addXlink
    simp [hsvg, hmath]
  rw [hx, cleanAttrs_keeps_allowed o false t.accA attrs hall]

/-- the matching end tag passes too, and the state is untouched -/
theorem safe_end_passes (t : Tables) (st : St) (tag : Str) (htag : t.acc.contains tag = true) :
    stop t st tag = (st, some (.etag tag)) := by
  have h' : tag ∈ t.acc := by simpa using htag
  simp [stop, stopSt, stopEmit, h']

/-- text, character references and known entity references outside script/style/applet are kept -/
theorem text_kept (t : Tables) (o : Ops) (isHtml : Bool) (st : St) (x : Str) (h : st.unacceptable = 0) :
    step t o isHtml st (.text x) = (st, some (.text x)) := by
  simp [step, h]

theorem known_entity_kept (t : Tables) (o : Ops) (isHtml : Bool) (st : St) (r : Str) (h : t.entities.contains r = true) :
    step t o isHtml st (.entref r) = (st, some (.ref ('&' :: r ++ [';']))) := by
  simp only [step, entrefPiece, h, ↓reduceIte]

theorem charref_kept (t : Tables) (o : Ops) (isHtml : Bool) (st : St) (r : Str)
    (hlow : lowerS r = r) (hnot : t.cp1252.find? (·.1 == charrefValue r) = none) :
    step t o isHtml st (.charref r) = (st, some (.ref (s "&#" ++ r ++ [';']))) := by
  simp only [step, charrefPiece, hlow]
  rw [hnot]

/-- **Safe token streams pass through as a whole** (every length): for a callback sequence made
only of allow-listed HTML start tags with allow-listed plain attributes, their end tags, text,
known entity references and comments, started outside SVG/MathML/script, the emitted pieces are
exactly the (normalised) input pieces in the same order. -/
inductive SafeTok (t : Tables) : Tok → Prop
  | stag (tag attrs) : t.acc.contains tag = true →
      (∀ a ∈ normalizeAttrs attrs, t.accA.contains a.1 = true ∧ plainKey a.1) → SafeTok t (.stag tag attrs)
  | etag (tag) : t.acc.contains tag = true → SafeTok t (.etag tag)
  | text (x) : SafeTok t (.text x)
  | entref (r) : t.entities.contains r = true → SafeTok t (.entref r)
  | comment (c) : SafeTok t (.comment c)

def normTok (t : Tables) : Tok → Piece
  | .stag tag attrs => .stag tag ((normalizeAttrs attrs).map fun a => (a.1, escapeAttr a.2))
  | .etag tag => .etag tag
  | .text x => .text x
  | .entref r => .ref ('&' :: r ++ [';'])
  | .comment c => .comment c
  | .charref r => .ref (charrefPiece t r)
  | .pi _ => .text []
  | .decl _ => .text []
  | .mdecl _ => .text []

def Clean (st : St) : Prop := st.unacceptable = 0 ∧ st.mathmlOK = 0 ∧ st.svgOK = 0

theorem safe_stream_passes (t : Tables) (o : Ops) (isHtml : Bool) (toks : List Tok)
    (hs : ∀ tok ∈ toks, SafeTok t tok) :
    ∀ st, Clean st → run t o isHtml st toks = toks.map (normTok t) := by
  induction toks with
  | nil => intro st _; rfl
  | cons tok rest ih =>
    intro st hc
    have htok := hs tok (by simp)
    have hrest := ih (fun x hx => hs x (by simp [hx]))
    obtain ⟨hu, hm, hsv⟩ := hc
    unfold run
    cases htok with
    | stag tag attrs htag hall =>
      simp only [step]
      rw [safe_start_passes t o isHtml st tag attrs htag hsv hm hall]
      simp only [map_cons, normTok]
      rw [hrest st ⟨hu, hm, hsv⟩]
    | etag tag htag =>
      simp only [step]
      rw [safe_end_passes t st tag htag]
      simp only [map_cons, normTok]
      rw [hrest st ⟨hu, hm, hsv⟩]
    | text x =>
      rw [text_kept t o isHtml st x hu]
      simp only [map_cons, normTok]
      rw [hrest st ⟨hu, hm, hsv⟩]
    | entref r hr =>
      rw [known_entity_kept t o isHtml st r hr]
      simp only [map_cons, normTok]
      rw [hrest st ⟨hu, hm, hsv⟩]
    | comment c =>
      simp only [step, map_cons, normTok]
      rw [hrest st ⟨hu, hm, hsv⟩]

/-! ### the resolver changes nothing but table attributes -/

theorem resolver_off_table_identity (relTable : List (Str × Str)) (resolve : Str → Str) (tag : Str) (attrs : List Attr)
    (h : ∀ a ∈ normalizeAttrs attrs, relTable.contains (tag, a.1) = false) :
    resolverStart relTable resolve tag attrs = .stag tag ((normalizeAttrs attrs).map fun a => (a.1, escapeAttr a.2)) := by
  unfold resolverStart
  congr 1
  apply List.map_congr_left
  intro a ha
  obtain ⟨k, v⟩ := a
  have := h (k, v) ha
  simp only at this ⊢
  have hn : (tag, k) ∉ relTable := by simpa using this
  simp [hn]

/-- the resolver never drops a callback: comments, PIs and declarations are re-emitted -/
theorem resolver_keeps_everything (t : Tables) (relTable : List (Str × Str)) (resolve : Str → Str) (x : Str) :
    resolverStep t relTable resolve (.comment x) = s "<!--" ++ x ++ s "-->" ∧
    resolverStep t relTable resolve (.text x) = x ∧
    resolverStep t relTable resolve (.pi x) = s "<?" ++ x ++ ['>'] ∧
    resolverStep t relTable resolve (.decl x) = s "<!" ++ x ++ ['>'] := ⟨rfl, rfl, rfl, rfl⟩

/-! ### table facts: nothing was dropped from the documented lists -/

/-- TABLE FACT: every documented element / attribute is still on its allow-list (an over-eager
removal breaks this), and the resolver table still has every documented pair -/
theorem allowlists_superset_reference :
    Ref.Sanitizer.acceptableElements.all (fun x => Gen.Sanitizer.acceptableElements.contains x) = true ∧
    Ref.Sanitizer.acceptableAttributes.all (fun x => Gen.Sanitizer.acceptableAttributes.contains x) = true ∧
    Ref.Sanitizer.mathmlElements.all (fun x => Gen.Sanitizer.mathmlElements.contains x) = true ∧
    Ref.Sanitizer.mathmlAttributes.all (fun x => Gen.Sanitizer.mathmlAttributes.contains x) = true ∧
    Ref.Sanitizer.svgElements.all (fun x => Gen.Sanitizer.svgElements.contains x) = true ∧
    Ref.Sanitizer.svgAttributes.all (fun x => Gen.Sanitizer.svgAttributes.contains x) = true ∧
    Ref.Sanitizer.elementsNoEndTag.all (fun x => Gen.Sanitizer.elementsNoEndTag.contains x) = true ∧
    Gen.Sanitizer.elementsNoEndTag.all (fun x => Ref.Sanitizer.elementsNoEndTag.contains x) = true ∧
    Ref.Urls.relativeUris.all (fun x => Gen.Urls.relativeUris.contains x) = true := by
  decide +kernel

/-! ### witnesses -/

/-- an unknown entity reference loses its semicolon (open finding): `&foo;` → `&amp;foo` -/
theorem unknown_entity_counterexample :
    entrefPiece shipped (s "foo") = s "&amp;foo" := by decide +kernel

/-- a stray end tag of a suppressed element drives the counter negative and all later text is lost
(open finding): `</script>x` → `` -/
theorem stray_end_tag_text_loss_counterexample :
    serialize shipped (run shipped ops0 true {} [.etag (s "script"), .text (s "x")]) = [] := by decide +kernel

example : serialize shipped (run shipped ops0 true {}
    [.stag (s "a") [(s "TITLE", s "x&amp;y"), (s "rel", s "NoFollow")], .text (s "t"), .entref (s "copy"), .etag (s "a"), .stag (s "br") []])
    = s "<a rel=\"nofollow\" title=\"x&amp;y\">t&copy;</a><br />" := by decide +kernel

end FeedVerif.San

/-! ### stage 2 of M-mixin: what `pop()` does to the value of a text construct (title, subtitle, rights, …)

`contentOutput` is the model of the post-processing chain of `XMLParserMixin.pop` (mixin.py:531-616) with the sanitizer, the
relative-URI resolver, `looks_like_html`, base64 and the back end's reference decoding as parameters; it is tied to the real `pop` on
every run by the M-mixin correspondence (recorded answers of those five functions). -/

namespace FeedVerif.Mixin

/-- **text/plain is returned verbatim** (C13's last clause, C02's "character for character"): when the content type `pop()` ends
with is not an HTML type, the element is not an element-level URI and the content is not base64, the stored value is the joined,
stripped character data after the back end's reference decoding and the documented text repairs — the sanitizer and the relative-URI
resolver are not consulted, whatever the options say. -/
theorem plain_text_verbatim (o : Ops) (c : Core) (el out0 ty : Str)
    (hty : finalType o c el out0 = some ty) (hplain : htmlTypes.contains (mapContentType ty) = false)
    (hb : cpBase64 c = false) (hu : canBeRelativeUri.contains el = false) :
    (contentOutput o c el out0).2 = o.fix (o.decodeEnt ((c.cp.map (·.type)).getD (S "xml")) out0) := by
  unfold finalType contentOutput at hty
  unfold contentOutput
  simp only [hb, hu, Bool.false_eq_true, ↓reduceIte, Bool.false_and] at hty ⊢
  rw [hty]
  simp only [Option.getD_some, hplain, Bool.false_and, Bool.false_eq_true, ↓reduceIte]

/-- non-vacuity: an Atom `type="text"` value that LOOKS like markup is neither guessed to be HTML nor handed to the (here: destructive) sanitizer / resolver -/
example : (contentOutput { base := ⟨fun _ r => r, fun u => u, fun _ r => r⟩, join := (fun _ u => u), fix := id, loose := false, looksHtml := (fun _ => true), sanitize := (fun _ _ => Mixin.S "CLEAN"), resolveMarkup := (fun _ _ _ => Mixin.S "RESOLVED") }
    { version := S "atom10", cp := some { type := S "text/plain", lang := none, base := "", base64 := false } } (S "title") (S "<b>x</b> &amp; y")) = (some (S "text/plain"), S "<b>x</b> &amp; y") := by decide +kernel

end FeedVerif.Mixin
