/-
C12 — DOCTYPE content is contained: no nested-entity expansion, no content-driven I/O.
Model: FeedVerif/Model/Doctype.lean.
-/
import FeedVerif.Model.Doctype
import FeedVerif.Model.Mixin

namespace FeedVerif.Doctype
open List

/-- a replacement text that is plain text (no `&`, no `"`) or exactly one character reference
`&#\w+;` — nothing that refers to another entity -/
def SafeVal (v : Str) : Prop :=
  (∀ c ∈ v, c ≠ '&' ∧ c ≠ '"') ∨ ∃ ref, ref ≠ [] ∧ (∀ c ∈ ref, wordc c = true) ∧ v = '&' :: '#' :: ref ++ [';']

theorem mem_takeWhile_prop (p : Char → Bool) (l : Str) : ∀ x ∈ l.takeWhile p, p x = true := by
  induction l with
  | nil => intro x hx; simp at hx
  | cons a r ih =>
    intro x hx
    by_cases ha : p a = true
    · simp only [takeWhile_cons, ha, ↓reduceIte, mem_cons] at hx
      rcases hx with rfl | hx
      · exact ha
      · exact ih x hx
    · simp [takeWhile_cons, ha] at hx

/-- **Whatever the SAFE pattern accepts carries a safe value**: plain text or a single character
reference, with a `\w+` name. -/
theorem safeMatch_safe (e : Str) (k v rest : Str) (h : safeMatch e = some (k, v, rest)) :
    SafeVal v ∧ k ≠ [] ∧ ∀ c ∈ k, wordc c = true := by
  unfold safeMatch at h
  simp only at h
  split at h
  · cases h
  · split at h
    · cases h
    · rename_i hname
      split at h
      · cases h
      · split at h
        · rename_i r3 hr2
          split at h
          · -- alternative 1 matched
            rename_i v' rest' halt
            simp only [Option.some.injEq, Prod.mk.injEq] at h
            obtain ⟨hk, hv, _⟩ := h
            subst hk; subst hv
            refine ⟨?_, ?_, fun c hc => mem_takeWhile_prop wordc _ c hc⟩
            · right
              split at halt
              · rename_i r4
                split at halt
                · cases halt
                · rename_i href
                  split at halt
                  · rename_i rest'' _
                    simp only [Option.some.injEq, Prod.mk.injEq] at halt
                    refine ⟨r4.takeWhile wordc, ?_, fun c hc => mem_takeWhile_prop wordc _ c hc, halt.1.symm⟩
                    intro e0; rw [e0] at href; simp at href
                  · cases halt
              · cases halt
            · intro e0; rw [e0] at hname; simp at hname
          · -- alternative 2
            split at h
            · simp only [Option.some.injEq, Prod.mk.injEq] at h
              obtain ⟨hk, hv, _⟩ := h
              subst hk; subst hv
              refine ⟨?_, ?_, fun c hc => mem_takeWhile_prop wordc _ c hc⟩
              · left
                intro c hc
                have := mem_takeWhile_prop (fun c => c != '&' && c != '"') _ c hc
                simpa using this
              · intro e0; rw [e0] at hname; simp at hname
            · cases h
        · cases h

/-- every entity handed to the loose parser has a safe value (findall over the rebuilt DOCTYPE) -/
theorem safeFindAll_safe : ∀ (n : Nat) (s : Str), ∀ kv ∈ safeFindAllF n s, SafeVal kv.2 := by
  intro n
  induction n with
  | zero => intro s kv h; cases s <;> simp [safeFindAllF] at h
  | succ n ih =>
    intro s kv h
    cases s with
    | nil => simp [safeFindAllF] at h
    | cons c rest =>
      unfold safeFindAllF at h
      cases hm : safeMatch (c :: rest) with
      | none => rw [hm] at h; exact ih rest kv h
      | some t =>
        obtain ⟨k, v, after⟩ := t
        rw [hm] at h
        simp only [mem_cons] at h
        rcases h with rfl | h
        · exact (safeMatch_safe _ k v after hm).1
        · exact ih after kv h

/-- **Entities dict is safe**: whatever the prolog looks like, every entity `replace_doctype`
returns for the loose parser has a plain-text or single-character-reference value. -/
theorem entities_dict_safe (data : Str) : ∀ kv ∈ (replaceDoctype data).entities, SafeVal kv.2 := by
  unfold replaceDoctype
  split
  · simp only
    intro kv h
    exact safeFindAll_safe _ _ kv h
  · intro kv h; simp at h

/-- **Only declarations accepted by the SAFE pattern are re-inserted** into the rebuilt DOCTYPE. -/
theorem rebuilt_only_safe (ents : List Str) :
    ∀ e ∈ ents.filter (fun e => (safeMatch e).isSome), ∃ k v rest, safeMatch e = some (k, v, rest) ∧ SafeVal v := by
  intro e he
  have h2 := (List.mem_filter.mp he).2
  cases hm : safeMatch e with
  | none => rw [hm] at h2; cases h2
  | some t =>
    obtain ⟨k, v, rest⟩ := t
    exact ⟨k, v, rest, rfl, (safeMatch_safe e k v rest hm).1⟩

/-- data that does not start (after white space) with `<` is returned untouched -/
theorem not_xml_identity (data : Str) (h : ∀ r, data.dropWhile ws ≠ '<' :: r) :
    (replaceDoctype data).data = data ∧ (replaceDoctype data).entities = [] := by
  unfold replaceDoctype
  split
  · rename_i r heq; exact absurd heq (h r)
  · exact ⟨rfl, rfl⟩

/-! ### concrete layouts (kernel-evaluated): nested entities never survive, safe ones do -/

def nestedOneLine : Str :=
  "<?xml version=\"1.0\"?><!DOCTYPE rss [<!ENTITY a \"AAAA\"><!ENTITY b \"&a;&a;&a;\"><!ENTITY c \"&#179;\">]><rss><channel><title>&b;</title></channel></rss>".toList

/-- the one-line layout that bypassed the filter before the `fix:` commit: only `a` and `c` survive -/
theorem one_line_layout_contained :
    (replaceDoctype nestedOneLine).data =
      "<?xml version=\"1.0\"?><!DOCTYPE feed [\n<!ENTITY a \"AAAA\">\n<!ENTITY  c \"&#179;\">\n]><rss><channel><title>&b;</title></channel></rss>".toList ∧
    (replaceDoctype nestedOneLine).entities = [("a".toList, "AAAA".toList), ("c".toList, "&#179;".toList)] := by
  decide +kernel

theorem external_and_parameter_entities_dropped :
    (replaceDoctype "<!DOCTYPE r [\n<!ENTITY x SYSTEM \"file:///etc/passwd\">\n<!ENTITY % p \"q\">\n<!ENTITY ok \"fine\">\n]>\n<r/>".toList).entities
      = [("ok".toList, "fine".toList)] := by decide +kernel

/-! ### the prolog scanner (`_first_element_offset`, fix: e7e48c9): what is inside a comment or a processing instruction is never taken for the first element -/

/-- the scan for the comment terminator passes over any text without `>` -/
theorem dropThrough_comment (c t : Str) (hc : ∀ x ∈ c, x ≠ '>') :
    dropThrough "-->".toList (c ++ "-->".toList ++ t) = t := by
  induction c with
  | nil => simp [dropThrough, startsWith]
  | cons x c ih =>
    have hx : x ≠ '>' := hc x (by simp)
    have hc' : ∀ y ∈ c, y ≠ '>' := fun y hy => hc y (by simp [hy])
    have hno : startsWith "-->".toList (x :: (c ++ "-->".toList ++ t)) = false := by
      match c, hc' with
      | [], _ => simp [startsWith]
      | [a], _ => simp [startsWith]
      | a :: b :: c'', h =>
        have hb : b ≠ '>' := h b (by simp)
        simp [startsWith, hb]
    show dropThrough "-->".toList (x :: (c ++ "-->".toList ++ t)) = t
    rw [dropThrough, hno]
    exact ih hc'

/-- …and the scan for the end of a processing instruction likewise -/
theorem dropThrough_pi (c t : Str) (hc : ∀ x ∈ c, x ≠ '>') :
    dropThrough "?>".toList (c ++ "?>".toList ++ t) = t := by
  induction c with
  | nil => simp [dropThrough, startsWith]
  | cons x c ih =>
    have hc' : ∀ y ∈ c, y ≠ '>' := fun y hy => hc y (by simp [hy])
    have hno : startsWith "?>".toList (x :: (c ++ "?>".toList ++ t)) = false := by
      match c, hc' with
      | [], _ => simp [startsWith]
      | a :: c'', h =>
        have ha : a ≠ '>' := h a (by simp)
        simp [startsWith, ha]
    show dropThrough "?>".toList (x :: (c ++ "?>".toList ++ t)) = t
    rw [dropThrough, hno]
    exact ih hc'

/-- WHATEVER a comment contains (tags, `<rss …>`, a DOCTYPE, entity declarations — anything without `>`; with `>` the comment simply ends earlier for the
scanner exactly as it does for XML), the first element is looked for AFTER it: the comment's text has no influence on where the filter's head ends.  (Before
the fix: commit the pattern `<\w` stopped at the first tag-like text inside the comment and the DOCTYPE behind it went to expat unfiltered.) -/
theorem comment_is_skipped (n : Nat) (c t : Str) (hc : ∀ x ∈ c, x ≠ '>') :
    firstElemRest (n + 1) ("<!--".toList ++ c ++ "-->".toList ++ t) = firstElemRest n t := by
  have h0 : "<!--".toList ++ c ++ "-->".toList ++ t = '<' :: '!' :: '-' :: '-' :: (c ++ "-->".toList ++ t) := by simp
  rw [h0, firstElemRest]
  simp only [List.dropWhile, bne_self_eq_false]
  have hs : startsWith "<!--".toList ('<' :: '!' :: '-' :: '-' :: (c ++ "-->".toList ++ t)) = true := by simp [startsWith]
  simp only [hs, ↓reduceIte, List.drop]
  rw [dropThrough_comment c t hc]

/-- the same for a processing instruction (`<?php echo '<rss>' ?>`) -/
theorem pi_is_skipped (n : Nat) (c t : Str) (hc : ∀ x ∈ c, x ≠ '>') :
    firstElemRest (n + 1) ("<?".toList ++ c ++ "?>".toList ++ t) = firstElemRest n t := by
  have h0 : "<?".toList ++ c ++ "?>".toList ++ t = '<' :: '?' :: (c ++ "?>".toList ++ t) := by simp
  rw [h0, firstElemRest]
  simp only [List.dropWhile, bne_self_eq_false]
  have hs1 : startsWith "<!--".toList ('<' :: '?' :: (c ++ "?>".toList ++ t)) = false := by
    cases c with
    | nil => simp [startsWith]
    | cons a c' => cases c' <;> simp [startsWith]
  have hs2 : startsWith "<?".toList ('<' :: '?' :: (c ++ "?>".toList ++ t)) = true := by simp [startsWith]
  simp only [hs1, hs2, Bool.false_eq_true, ↓reduceIte, List.drop]
  rw [dropThrough_pi c t hc]

/-- the scan for the closing quote passes over anything but that quote -/
theorem dropThrough_quote (q : Char) (lit t : Str) (hq : ∀ x ∈ lit, x ≠ q) : dropThrough [q] (lit ++ q :: t) = t := by
  induction lit with
  | nil => simp [dropThrough, startsWith]
  | cons x l ih =>
    have hx : x ≠ q := hq x (by simp)
    have hl : ∀ y ∈ l, y ≠ q := fun y hy => hq y (by simp [hy])
    show dropThrough [q] (x :: (l ++ q :: t)) = t
    rw [dropThrough]
    have : startsWith [q] (x :: (l ++ q :: t)) = false := by simp [startsWith, hx]
    rw [this]
    exact ih hl

/-- inside a declaration (`<!DOCTYPE … SYSTEM "x<y>z" …>`) a quoted literal is passed over as a whole, WHATEVER it contains — `>`, `<b`, `]`, `<!--` —:
the declaration does not end inside it and nothing in it is taken for markup -/
theorem literal_is_skipped (n : Nat) (depth : Int) (lit t : Str) (hq : ∀ x ∈ lit, x ≠ '"') :
    skipDecl (n + 1) depth ('"' :: (lit ++ '"' :: t)) = skipDecl n depth t := by
  rw [skipDecl]
  simp only [beq_self_eq_true, Bool.true_or, ↓reduceIte]
  rw [dropThrough_quote '"' lit t hq]

theorem dropWhile_head_false (p : Char → Bool) : ∀ (s : Str) (c : Char) (r : Str), s.dropWhile p = c :: r → p c = false := by
  intro s
  induction s with
  | nil => intro c r h; simp at h
  | cons x xs ih =>
    intro c r h
    by_cases hp : p x = true
    · rw [List.dropWhile_cons_of_pos hp] at h; exact ih c r h
    · rw [List.dropWhile_cons_of_neg hp] at h
      cases h
      simpa using hp

/-- what the scanner answers IS a start tag: `<` followed by a word character -/
theorem firstElemRest_is_a_tag : ∀ (n : Nat) (s rest : Str), firstElemRest n s = some rest → ∃ d r, rest = '<' :: d :: r ∧ wordc d = true := by
  intro n
  induction n with
  | zero => intro s rest h; simp [firstElemRest] at h
  | succ n ih =>
    intro s rest h
    rw [firstElemRest] at h
    split at h
    · cases h
    · rename_i c r heq
      have hc : c = '<' := by
        have := dropWhile_head_false (· != '<') s c r heq
        simpa using this
      split at h
      · exact ih _ _ h
      · split at h
        · exact ih _ _ h
        · split at h
          · exact ih _ _ h
          · split at h
            · split at h
              · cases h
                exact ⟨_, _, by rw [hc], by assumption⟩
              · exact ih _ _ h
            · cases h

def commentBeforeDoctype : Str :=
  "<?xml version=\"1.0\"?><!-- see <b>markup</b> --><!DOCTYPE rss [<!ENTITY a \"AAAA\"><!ENTITY b \"&a;&a;&a;\">]><rss><channel><title>&b;</title></channel></rss>".toList

/-- the layout that bypassed the filter before fix: e7e48c9 (tag-like text in a comment in front of the DOCTYPE): the nested entity `b` is dropped -/
theorem comment_markup_layout_contained :
    (replaceDoctype commentBeforeDoctype).entities = [("a".toList, "AAAA".toList)] ∧
    (replaceDoctype commentBeforeDoctype).data =
      "<?xml version=\"1.0\"?><!-- see <b>markup</b> --><!DOCTYPE feed [\n<!ENTITY a \"AAAA\">\n]><rss><channel><title>&b;</title></channel></rss>".toList := by
  decide +kernel

example : firstElemRest 9 ("<!--".toList ++ " <b x".toList ++ "-->".toList ++ "<r/>".toList) = some "<r/>".toList := by decide +kernel

example : safeMatch " e1 \"&e0;&e0;\"".toList = none := by decide +kernel
example : (replaceDoctype "no markup".toList).data = "no markup".toList := by decide +kernel

end FeedVerif.Doctype


namespace FeedVerif.Mixin

/-! ### the consumer side of the entity table (M-mixin stage 6): the loose back end's `handle_entityref` / `handle_charref`

`replace_doctype` hands the table of safe entities (see `entities_dict_safe` above) to the loose parser; these theorems say what a reference can
become THERE: its replacement text is appended as character data exactly once — it is never tokenised again, so nothing inside it is expanded — and
one reference contributes at most the longest declared replacement text plus two characters. -/

/-- a reference to a declared entity whose replacement is not of the `&#…;` form appends exactly the replacement text -/
theorem eref_expands_once (o : Ops) (ref t : Str) (ht : o.entities ref = some t)
    (hfive : (ref == S "lt" || ref == S "gt" || ref == S "quot" || ref == S "amp" || ref == S "apos") = false)
    (hplain : ((S "&#").isPrefixOf t && endsWith [';'] t) = false) : erefText o ref = t := by
  unfold erefText erefTextF
  simp only [hfive, Bool.false_eq_true, ↓reduceIte, ht, hplain]

/-- **Linear growth**: whatever the table, one entity reference appends at most `max (length of the name) (longest replacement) + 2` characters -/
theorem eref_text_bounded (o : Ops) (B : Nat) (hB : ∀ r t, o.entities r = some t → t.length ≤ B) :
    ∀ (n : Nat) (ref : Str), (erefTextF o n ref).length ≤ max ref.length B + 2 := by
  intro n
  induction n with
  | zero => intro ref; simp only [erefTextF, List.length_append, List.length_cons, List.length_nil]; omega
  | succ n ih =>
    intro ref
    unfold erefTextF
    split
    · simp only [List.length_append, List.length_cons, List.length_nil]; omega
    · split
      · rename_i t ht
        have hl := hB ref t ht
        split
        · have := ih t
          omega
        · omega
      · split
        · simp only [List.length_cons, List.length_nil]; omega
        · simp only [List.length_append, List.length_cons, List.length_nil]; omega

/-- a character reference appends one character, or — for the ten kept ones — the reference itself -/
theorem cref_text_bounded (ref t : Str) (h : crefText ref = some t) : t.length ≤ ref.length + 3 := by
  unfold crefText at h
  simp only at h
  split at h
  · injection h with h
    rw [← h]
    simp [lowerS, S]
  · split at h
    · injection h with h; rw [← h]; simp
    · split at h <;> (injection h with h; rw [← h]; simp)

/-- the event itself only appends that text to the open element (or drops it when no element is open): no other part of the state changes -/
theorem ref_events_only_append (o : Ops) (s s' : MSt) (ref : Str) :
    (mstep o s (.eref ref) = .ok s' → s'.c = s.c ∧ s'.stack.length = s.stack.length) ∧
    (mstep o s (.cref ref) = .ok s' → s'.c = s.c ∧ s'.stack.length = s.stack.length) := by
  have hd : ∀ t, (handleData s t).c = s.c ∧ (handleData s t).stack.length = s.stack.length := by
    intro t; unfold handleData; split <;> simp [*]
  refine ⟨fun h => ?_, fun h => ?_⟩
  · simp only [mstep] at h; injection h with h; rw [← h]; exact hd _
  · simp only [mstep] at h
    split at h
    · injection h with h; rw [← h]; exact hd _
    · cases h

/-- non-vacuity: a declared entity, an HTML entity name, an unknown name, a kept and an ordinary character reference, a surrogate -/
example :
    let o : Ops := { base := ⟨fun _ r => r, fun u => u, fun _ r => r⟩, join := fun _ u => u, fix := id, loose := true,
                     entities := fun r => if r == S "me" then some (S "my text with <b>") else if r == S "num" then some (S "&#233;") else none }
    ((erefText o (S "me"), erefText o (S "amp"), erefText o (S "nosuch"), erefText o (S "num"), crefText (S "38"), crefText (S "65"), crefText (S "xD800"), crefText (S "x")) ==
     (S "my text with <b>", S "&amp;", S "&nosuch;", S "&&#233;;", some (S "&#38;"), some (S "A"), some [Char.ofNat 0xFFFD], some [Char.ofNat 0xFFFD])) = true := by decide +kernel

/-- the source of the hand-modelled reference callbacks (`handle_charref`, `handle_entityref`, `handle_data`) and of both back ends' `decode_entities` is the one the
model was written from (fingerprints recomputed from /repo on every run; the list names the functions whose body changed) -/
theorem stage6_source_unchanged : Gen.Mixin.stage6ChangedL = [] := by decide

end FeedVerif.Mixin
