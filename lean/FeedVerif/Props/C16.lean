/-
C16 — parse() is re-entrant: no dependence on earlier calls or concurrent threads.
Model: FeedVerif/Model/Init.lean.  The CPython scheduler is runtime; what a theorem can carry is the
protocol: IF no statement of a call writes state that another call can read, THEN under every
interleaving each call computes exactly what it computes alone.  That the real code has this shape
(no module-level or class-level object changes across calls, from a cold start) is checked on every
run by the global-state inventory; the one lazily derived table family is modelled statement by
statement in both placements.
-/
import FeedVerif.Model.Init
import FeedVerif.Gen.Sanitizer

namespace FeedVerif.Init

theorem run_shared_fixed {S L : Type} (sys : Sys S L) (h : ReadOnly sys) (sched : List Nat) :
    ∀ (s : S) (ls : Nat → L), (run sys s ls sched).1 = s := by
  induction sched with
  | nil => intro s ls; rfl
  | cons t rest ih => intro s ls; simp only [run]; rw [h]; exact ih s _

/-- **No shared write ⇒ every interleaving is a sequential run**: if no statement writes the shared
store, then under EVERY schedule each thread's private state is what it reaches running alone for as
many statements as the schedule gave it. -/
theorem isolated {S L : Type} (sys : Sys S L) (h : ReadOnly sys) (sched : List Nat) :
    ∀ (s : S) (ls : Nat → L) (t : Nat), (run sys s ls sched).2 t = alone sys t s (sched.count t) (ls t) := by
  induction sched with
  | nil => intro s ls t; rfl
  | cons u rest ih =>
    intro s ls t
    simp only [run]
    rw [h, ih]
    by_cases hut : u = t
    · subst hut
      simp [List.count_cons, alone]
    · have htu : ¬ t = u := fun e => hut e.symm
      have hb : (u == t) = false := by simpa using hut
      simp only [htu, ↓reduceIte, List.count_cons, hb, Bool.false_eq_true, Nat.add_zero]

/-- the code as written (results stored on the instance) never writes the class -/
theorem instance_placement_readonly : ReadOnly (lazySys .onInstance) := by
  intro t cls i
  simp only [lazySys, stmt]
  split <;> try rfl
  · split <;> rfl

/-- alone, ten statements take a fresh sanitizer to the derived tables -/
theorem alone_derives (t : Nat) (ra re : List Str) :
    (alone (lazySys .onInstance) t ⟨ra, [], re, []⟩ 10 {}).result = some (derived ra re) := by
  simp [alone, lazySys, stmt, getMap, getAttrs, getElems, getElemMap, derived, derive1]

/-- **Lazy tables on the instance are race-free**: two (or more) sanitizers started cold on the same
class tables, interleaved in ANY way that lets each finish its ten statements, each end up with exactly
the tables a lone sanitizer derives — and the class tables are untouched. -/
theorem lazy_init_safe (ra re : List Str) (sched : List Nat) (t : Nat) (hfin : sched.count t = 10) :
    ((run (lazySys .onInstance) ⟨ra, [], re, []⟩ (fun _ => {}) sched).2 t).result = some (derived ra re) ∧
    (run (lazySys .onInstance) ⟨ra, [], re, []⟩ (fun _ => {}) sched).1 = ⟨ra, [], re, []⟩ := by
  constructor
  · rw [isolated _ instance_placement_readonly, hfin]; exact alone_derives t ra re
  · exact run_shared_fixed _ instance_placement_readonly sched _ _

/-- why the placement matters: with the results stored on the CLASS there is a schedule on which the
second sanitizer derives an EMPTY case map (it lower-cases the already lower-cased list) — `viewBox`
would come out as `viewbox` — and leaves that empty map on the class for every later call -/
theorem class_placement_race :
    let ra : List Str := ["viewBox".toList, "x".toList]
    let sched := [0, 0, 0, 0, 1, 1, 1, 1, 1, 1, 1, 1, 1, 1, 0, 0, 0, 0, 0, 0]      -- thread 0 preempted between its two assignments
    let r := run (lazySys .onClass) ⟨ra, [], [], []⟩ (fun _ => {}) sched
    ((r.2 1).result.map (·.attrMap)) = some [] ∧ (derived ra []).attrMap = [("viewbox".toList, "viewBox".toList)] := by
  decide +kernel

/-- the derived tables of the model ARE the tables real sanitizer instances end up with (the translator
records them from a real instance after its first SVG element) -/
theorem derived_is_real :
    derived (Gen.Sanitizer.svgAttributes.map String.toList) (Gen.Sanitizer.svgElements.map String.toList) =
      ⟨Gen.Sanitizer.svgAttributesLower.map String.toList, Gen.Sanitizer.svgAttrMap.map (fun p => (p.1.toList, p.2.toList)),
       Gen.Sanitizer.svgElementsLower.map String.toList, Gen.Sanitizer.svgElemMap.map (fun p => (p.1.toList, p.2.toList))⟩ := by
  decide +kernel

end FeedVerif.Init
