/-
C03 — sanitized markup contains only allow-listed elements and attributes.
Model: FeedVerif/Model/San.lean (filter + serializer over sgmllib's callback sequence).
-/
import FeedVerif.Model.San
import FeedVerif.Gen.RefSanitizer
import FeedVerif.Model.Mixin

namespace FeedVerif.San
open List

/-! ### what a safe piece is -/

def elemOK (t : Tables) (tag : Str) : Prop :=
  tag ∈ t.acc ∨ tag ∈ t.mathE ∨ ∃ x ∈ t.svgE, tag = mapGet t.svgEMap x
def attrKeyOK (t : Tables) (k : Str) : Prop :=
  k ∈ t.accA ∨ k ∈ t.mathA ∨ ∃ x ∈ t.svgA, k = mapGet t.svgAMap x
def valueOK (v : Str) : Prop := '<' ∉ v ∧ '>' ∉ v ∧ '"' ∉ v

def PieceOK (t : Tables) : Piece → Prop
  | .stag tag attrs => elemOK t tag ∧ ∀ a ∈ attrs, attrKeyOK t a.1 ∧ valueOK a.2
  | .etag tag => elemOK t tag
  | .text _ => True
  | .ref _ => True
  | .comment _ => True

/-! ### escaping -/

theorem escChar_ok (c x : Char) (hx : x ∈ escChar c) : x ≠ '<' ∧ x ≠ '>' ∧ x ≠ '"' := by
  unfold escChar at hx
  split at hx
  · revert x; decide
  · split at hx
    · revert x; decide
    · split at hx
      · revert x; decide
      · simp only [List.mem_singleton] at hx
        subst hx
        refine ⟨?_, ?_, ?_⟩ <;> assumption

theorem escAmp_mem (v : Str) : ∀ x ∈ escAmp v, x ∈ v ∨ x ∈ s "&amp;" := by
  induction v with
  | nil => intro x hx; simp [escAmp] at hx
  | cons c rest ih =>
    intro x hx
    unfold escAmp at hx
    split at hx
    · simp only [mem_append] at hx
      rcases hx with hx | hx
      · exact Or.inr hx
      · rcases ih x hx with h | h
        · exact Or.inl (mem_cons_of_mem _ h)
        · exact Or.inr h
    · simp only [mem_cons] at hx
      rcases hx with rfl | hx
      · exact Or.inl (mem_cons_self ..)
      · rcases ih x hx with h | h
        · exact Or.inl (mem_cons_of_mem _ h)
        · exact Or.inr h

theorem amp_chars_ok : ∀ x ∈ s "&amp;", x ≠ '<' ∧ x ≠ '>' ∧ x ≠ '"' := by decide

/-- **Attribute values are re-escaped**: no `<`, `>` or `"` in any emitted attribute value -/
theorem escapeAttr_ok (v : Str) : valueOK (escapeAttr v) := by
  have key : ∀ x ∈ escapeAttr v, x ≠ '<' ∧ x ≠ '>' ∧ x ≠ '"' := by
    intro x hx
    unfold escapeAttr at hx
    rcases escAmp_mem _ x hx with h | h
    · simp only [mem_flatMap] at h
      obtain ⟨c, _, hc⟩ := h
      exact escChar_ok c x hc
    · exact amp_chars_ok x h
  refine ⟨fun h => (key _ h).1 rfl, fun h => (key _ h).2.1 rfl, fun h => (key _ h).2.2 rfl⟩

/-! ### the filter emits only allow-listed tags and attributes -/

theorem cleanAttrs_ok (t : Tables) (o : Ops) (svg : Bool) (allowed : List Str) (amap : List (Str × Str))
    (attrs : List Attr) (hkey : ∀ k ∈ allowed, attrKeyOK t (mapGet amap k))
    (hid : ∀ k ∈ allowed, k = s "style" → mapGet amap k = k) :
    ∀ a ∈ cleanAttrs o svg allowed amap attrs, attrKeyOK t a.1 ∧ valueOK a.2 := by
  intro a ha
  unfold cleanAttrs at ha
  simp only [List.mem_filterMap] at ha
  obtain ⟨⟨k, v⟩, _, hkv⟩ := ha
  simp only at hkv
  split at hkv
  · rename_i hst
    split at hkv
    · cases hkv
    · cases hkv
      have hmem : s "style" ∈ allowed := by simpa using hst.2
      refine ⟨?_, escapeAttr_ok _⟩
      rw [hst.1, ← hid _ hmem rfl]; exact hkey _ hmem
  · split at hkv
    · rename_i hin
      cases hkv
      exact ⟨hkey k (by simpa using hin), escapeAttr_ok _⟩
    · cases hkv

theorem mapGet_nil (k : Str) : mapGet [] k = k := rfl

theorem emit_ok (t : Tables) (o : Ops) (st : St) (tag : Str) (attrs : List Attr)
    (hsvgA : ∀ k ∈ t.svgA, k = s "style" → mapGet t.svgAMap k = k) :
    ∀ p, emit t o st tag attrs = some p → PieceOK t p := by
  intro p hp
  have hA : ∀ k ∈ t.accA, attrKeyOK t (mapGet [] k) := fun k hk => Or.inl hk
  have hM : ∀ k ∈ t.mathA, attrKeyOK t (mapGet [] k) := fun k hk => Or.inr (Or.inl hk)
  have hS : ∀ k ∈ t.svgA, attrKeyOK t (mapGet t.svgAMap k) := fun k hk => Or.inr (Or.inr ⟨k, hk, rfl⟩)
  unfold emit at hp
  split at hp
  · rename_i h
    cases hp
    exact ⟨Or.inr (Or.inl (by simpa using h.2)), cleanAttrs_ok t o _ _ [] _ hM (fun _ _ _ => rfl)⟩
  · split at hp
    · rename_i h
      cases hp
      exact ⟨Or.inr (Or.inr ⟨tag, by simpa using h.2, rfl⟩), cleanAttrs_ok t o _ _ _ _ hS hsvgA⟩
    · split at hp
      · cases hp
      · rename_i h
        cases hp
        exact ⟨Or.inl (by simpa using h), cleanAttrs_ok t o _ _ [] _ hA (fun _ _ _ => rfl)⟩

theorem start_ok (t : Tables) (o : Ops) (isHtml : Bool) (st : St) (tag : Str) (attrs : List Attr)
    (hsvgA : ∀ k ∈ t.svgA, k = s "style" → mapGet t.svgAMap k = k) :
    ∀ p, (start t o isHtml st tag attrs).2 = some p → PieceOK t p := by
  intro p hp
  unfold start at hp
  split at hp
  · exact emit_ok t o _ tag _ hsvgA p hp
  · rename_i h
    cases hp
    have : tag ∈ t.acc := by
      have := not_or.mp h
      simpa using this.1
    exact ⟨Or.inl this, cleanAttrs_ok t o _ _ [] _ (fun k hk => Or.inl hk) (fun _ _ _ => rfl)⟩

theorem stop_ok (t : Tables) (st : St) (tag : Str) :
    ∀ p, (stop t st tag).2 = some p → PieceOK t p := by
  intro p hp
  simp only [stop] at hp
  unfold stopEmit at hp
  split at hp
  · split at hp
    · rename_i h; cases hp; exact Or.inr (Or.inl (by simpa using h.2))
    · split at hp
      · rename_i h; cases hp; exact Or.inr (Or.inr ⟨tag, by simpa using h.2, rfl⟩)
      · cases hp
  · rename_i h
    cases hp
    exact Or.inl (by simpa using h)

/-- **C03, filter level — for EVERY allow-list table, every callback sequence, every state**: each
emitted piece is text, a reference, a comment, or a tag whose element is allow-listed (HTML, or
MathML / SVG under their own lists) and whose every attribute is allow-listed for that class with a
value free of `<`, `>`, `"`. -/
theorem san_pieces_safe (t : Tables) (o : Ops) (isHtml : Bool)
    (hsvgA : ∀ k ∈ t.svgA, k = s "style" → mapGet t.svgAMap k = k) (toks : List Tok) :
    ∀ st, ∀ p ∈ run t o isHtml st toks, PieceOK t p := by
  induction toks with
  | nil => intro st p hp; simp [run] at hp
  | cons tok rest ih =>
    intro st p hp
    unfold run at hp
    have hstep : ∀ q, (step t o isHtml st tok).2 = some q → PieceOK t q := by
      intro q hq
      cases tok with
      | stag tag attrs => exact start_ok t o isHtml st tag attrs hsvgA q hq
      | etag tag => exact stop_ok t st tag q hq
      | text x => simp only [step] at hq; split at hq <;> cases hq; trivial
      | charref r => simp only [step] at hq; cases hq; trivial
      | entref r => simp only [step] at hq; cases hq; trivial
      | comment c => simp only [step] at hq; cases hq; trivial
      | pi _ => simp [step] at hq
      | decl _ => simp [step] at hq
      | mdecl _ => simp [step] at hq
    split at hp
    · rename_i st' q heq
      simp only [List.mem_cons] at hp
      rcases hp with rfl | hp
      · exact hstep _ (by rw [heq])
      · exact ih st' p hp
    · rename_i st' heq
      exact ih st' p hp

/-- processing instructions, declarations and marked sections (`<![if …]>`, `<![cdata[…]]>` …) are dropped, in every state -/
theorem pi_decl_dropped (t : Tables) (o : Ops) (isHtml : Bool) (st : St) (x : Str) :
    (step t o isHtml st (.pi x)).2 = none ∧ (step t o isHtml st (.decl x)).2 = none ∧
    (step t o isHtml st (.mdecl x)).2 = none := ⟨rfl, rfl, rfl⟩

/-- while the suppression counter is non-zero no text piece is emitted -/
theorem text_suppressed (t : Tables) (o : Ops) (isHtml : Bool) (st : St) (x : Str)
    (h : st.unacceptable ≠ 0) : (step t o isHtml st (.text x)).2 = none := by
  simp [step, h]

/-- **script / style / applet content is dropped**: right after the start tag of an element of
`unacceptable_elements_with_end_tag` (from a state whose counter is not negative) the counter is
positive, the tag itself is not emitted, and text is suppressed. -/
theorem script_text_dropped (t : Tables) (o : Ops) (isHtml : Bool) (st : St) (tag : Str) (attrs : List Attr) (x : Str)
    (h0 : 0 ≤ st.unacceptable) (hun : t.unacc.contains tag = true) (hacc : t.acc.contains tag = false)
    (hm : t.mathE.contains tag = false) (hs : t.svgE.contains tag = false) :
    (start t o isHtml st tag attrs).2 = none ∧
    (step t o isHtml (start t o isHtml st tag attrs).1 (.text x)).2 = none := by
  have hun' : tag ∈ t.unacc := by simpa using hun
  have hacc' : tag ∉ t.acc := by simpa using hacc
  have hm' : tag ∉ t.mathE := by simpa using hm
  have hs' : tag ∉ t.svgE := by simpa using hs
  have hst : (start t o isHtml st tag attrs).1.unacceptable = st.unacceptable + 1 := by
    unfold start
    simp only [hacc, Bool.false_eq_true, not_false_eq_true, true_or, ↓reduceIte]
    simp [pre, preSt, hun']
  constructor
  · unfold start
    simp only [hacc, Bool.false_eq_true, not_false_eq_true, true_or, ↓reduceIte]
    unfold emit
    simp [hm', hs', hacc']
  · apply text_suppressed
    rw [hst]; omega

/-! ### the suppressed region, for token sequences of any length and nesting -/

/-- the only tokens that can lower the suppression counter: end tags of
`unacceptable_elements_with_end_tag` -/
def closesUnacc (t : Tables) : Tok → Bool
  | .etag tag => t.unacc.contains tag
  | _ => false

/-- no other token lowers the counter, in any state -/
theorem step_counter_mono (t : Tables) (o : Ops) (isHtml : Bool) (st : St) (tok : Tok)
    (h : closesUnacc t tok = false) : st.unacceptable ≤ (step t o isHtml st tok).1.unacceptable := by
  cases tok with
  | stag tag attrs =>
    simp only [step, start]
    split
    · simp only [pre, preSt]; split <;> omega
    · exact Int.le_refl _
  | etag tag =>
    simp only [closesUnacc] at h
    simp only [step, stop, stopSt, h]
    split
    · simp only [Bool.false_eq_true, ↓reduceIte]
      split
      · split <;> exact Int.le_refl _
      · split
        · split <;> exact Int.le_refl _
        · exact Int.le_refl _
    · exact Int.le_refl _
  | text x => exact Int.le_refl _
  | charref r => exact Int.le_refl _
  | entref r => exact Int.le_refl _
  | comment c => exact Int.le_refl _
  | pi x => exact Int.le_refl _
  | decl x => exact Int.le_refl _
  | mdecl x => exact Int.le_refl _

/-- **the whole body of a script / style / applet element is dropped, whatever it contains**: from a
state whose counter is positive, a token sequence of ANY length and nesting that does not contain an
end tag of an unacceptable element emits no text piece at all — start tags, other end tags,
comments, references, nested unacceptable elements in between cannot re-enable text. -/
theorem suppressed_region (t : Tables) (o : Ops) (isHtml : Bool) (toks : List Tok) :
    ∀ st : St, 0 < st.unacceptable → (∀ tok ∈ toks, closesUnacc t tok = false) →
      ∀ p ∈ run t o isHtml st toks, ∀ x, p ≠ .text x := by
  induction toks with
  | nil => intro st _ _ p hp; simp [run] at hp
  | cons tok rest ih =>
    intro st hpos hall p hp x
    have hm := step_counter_mono t o isHtml st tok (hall tok (List.mem_cons_self))
    have hpos' : 0 < (step t o isHtml st tok).1.unacceptable := by omega
    have hrest := ih (step t o isHtml st tok).1 hpos' (fun k hk => hall k (List.mem_cons_of_mem _ hk))
    have hne : ∀ q, (step t o isHtml st tok).2 = some q → q ≠ .text x := by
      intro q hq
      cases tok with
      | text y =>
        have : st.unacceptable ≠ 0 := by omega
        simp [step, this] at hq
      | stag tag attrs =>
        intro e; subst e
        simp only [step, start] at hq
        split at hq
        · simp only [emit] at hq
          split at hq
          · cases hq
          · split at hq
            · cases hq
            · split at hq <;> cases hq
        · cases hq
      | etag tag =>
        intro e; subst e
        simp only [step, stop, stopEmit] at hq
        split at hq
        · split at hq
          · cases hq
          · split at hq <;> cases hq
        · cases hq
      | charref r => intro e; subst e; simp [step] at hq
      | entref r => intro e; subst e; simp [step] at hq
      | comment c => intro e; subst e; simp [step] at hq
      | pi y => simp [step] at hq
      | decl y => simp [step] at hq
      | mdecl y => simp [step] at hq
    unfold run at hp
    cases hs : step t o isHtml st tok with
    | mk st' op =>
      rw [hs] at hp
      have h1 : st' = (step t o isHtml st tok).1 := by rw [hs]
      cases op with
      | none => simp only at hp; rw [h1] at hp; exact hrest p hp x
      | some q =>
        simp only [List.mem_cons] at hp
        rcases hp with e | hp
        · rw [e]; exact hne q (by rw [hs])
        · rw [h1] at hp; exact hrest p hp x

/-- non-vacuity: `<script>a<b>c</b><!--d--></script>e` — only `e` (and the comment, the `b` tags)
come out; neither `a` nor `c` does. -/
example : ((run shipped { safeHref := fun x => x, style := fun _ x => x } true {}
    [.stag (s "script") [], .text (s "a"), .stag (s "b") [], .text (s "c"), .etag (s "b"),
     .etag (s "script"), .text (s "e")]).filterMap fun | .text x => some x | _ => none) = [s "e"] := by
  decide +kernel

/-! ### serializer: a start-tag piece serializes to exactly one tag -/

theorem serialize_stag_shape (t : Tables) (tag : Str) (attrs : List Attr) :
    ∃ body, serializePiece t (.stag tag attrs) = '<' :: tag ++ body ∧
      (body.getLast? = some '>') := by
  unfold serializePiece
  simp only
  split
  · exact ⟨_, by rw [List.append_assoc], by simp [s]⟩
  · exact ⟨_, by rw [List.append_assoc], by simp⟩

/-! ### table facts on the regenerated allow-lists -/

def dangerous : List String :=
  ["script", "style", "applet", "iframe", "object", "embed", "base", "meta", "link", "frame", "frameset", "xmp",
   "plaintext", "noembed", "noframes", "html", "head", "body", "template", "svg:script", "handler", "listener"]

/-- TABLE FACT: none of the script-capable / document-structure elements is on any element list
(`noscript`, `textarea`, SVG `title` / `foreignObject` / `set` / `animate` ARE documented
allow-list entries; what they may carry is limited by the attribute lists) -/
theorem no_dangerous_elements :
    dangerous.all (fun d =>
      !Gen.Sanitizer.acceptableElements.contains d && !Gen.Sanitizer.mathmlElements.contains d &&
      !Gen.Sanitizer.svgElementsLower.contains d) = true := by decide +kernel

/-- TABLE FACT: no attribute list contains an event handler (`on*`) -/
theorem no_event_handler_attributes :
    (Gen.Sanitizer.acceptableAttributes ++ Gen.Sanitizer.mathmlAttributes ++ Gen.Sanitizer.svgAttributesLower).all
      (fun a => !(a.toList.take 2 == ['o', 'n'])) = true := by decide +kernel

/-- TABLE FACT: elements whose content is suppressed are not themselves acceptable -/
theorem unacceptable_disjoint :
    Gen.Sanitizer.unacceptableElementsWithEndTag.all (fun e => !Gen.Sanitizer.acceptableElements.contains e) = true := by
  decide +kernel

/-- TABLE FACT: nothing was ADDED to any element / attribute allow-list relative to the frozen
reference snapshot of the documented lists -/
theorem allowlists_subset_reference :
    Gen.Sanitizer.acceptableElements.all (fun x => Ref.Sanitizer.acceptableElements.contains x) = true ∧
    Gen.Sanitizer.acceptableAttributes.all (fun x => Ref.Sanitizer.acceptableAttributes.contains x) = true ∧
    Gen.Sanitizer.mathmlElements.all (fun x => Ref.Sanitizer.mathmlElements.contains x) = true ∧
    Gen.Sanitizer.mathmlAttributes.all (fun x => Ref.Sanitizer.mathmlAttributes.contains x) = true ∧
    Gen.Sanitizer.svgElements.all (fun x => Ref.Sanitizer.svgElements.contains x) = true ∧
    Gen.Sanitizer.svgAttributes.all (fun x => Ref.Sanitizer.svgAttributes.contains x) = true ∧
    Ref.Sanitizer.unacceptableElementsWithEndTag.all (fun x => Gen.Sanitizer.unacceptableElementsWithEndTag.contains x) = true := by
  decide +kernel

/-- TABLE FACT: the side condition of `san_pieces_safe` holds for the shipped SVG tables -/
theorem shipped_style_unmapped :
    shipped.svgA.all (fun k => !(k == s "style") || mapGet shipped.svgAMap k == k) = true := by decide +kernel

/-- the theorem instantiated with the shipped tables -/
theorem shipped_pieces_safe (o : Ops) (isHtml : Bool) (toks : List Tok) (st : St) :
    ∀ p ∈ run shipped o isHtml st toks, PieceOK shipped p := by
  apply san_pieces_safe
  intro k hk hs
  have := (List.all_eq_true.mp shipped_style_unmapped) k hk
  simp only [hs, beq_self_eq_true, Bool.not_true, Bool.false_or, beq_iff_eq] at this
  rw [hs]; exact this

/-! ### witnesses -/

def ops0 : Ops := { safeHref := fun v => v, style := fun _ _ => [] }

/-- `<script>alert(1)</script><b onclick="x" title="a<b">t</b>` as sgmllib delivers it -/
example : serialize shipped (run shipped ops0 true {}
    [.stag (s "script") [], .text (s "alert(1)"), .etag (s "script"),
     .stag (s "b") [(s "onclick", s "x"), (s "title", s "a<b")], .text (s "t"), .etag (s "b")])
    = s "<b title=\"a&lt;b\">t</b>" := by decide +kernel

/-- the filter cannot help when the TOKENIZER hands over markup as text: the raw tail of a tag that
sgmllib failed to parse is a text callback and is emitted verbatim (open findings: raw `<` in text,
raw tail after a failed tag parse, `<!-->`-style comments).  The full statement "the HTML5
tokenization of the output contains only allow-listed tags" therefore needs the hypothesis that
text and comment pieces are inert; it is checked end to end by the search with an HTML5 tokenizer. -/
example : serialize shipped (run shipped ops0 true {} [.text (s "<img src=x onerror=alert(1)>")])
    = s "<img src=x onerror=alert(1)>" := by decide +kernel

end FeedVerif.San

/-! ### stage 2 of M-mixin: what `pop()` does to the value of a text construct (title, subtitle, rights, …)

`contentOutput` is the model of the post-processing chain of `XMLParserMixin.pop` (mixin.py:531-616) with the sanitizer, the
relative-URI resolver, `looks_like_html`, base64 and the back end's reference decoding as parameters; it is tied to the real `pop` on
every run by the M-mixin correspondence (recorded answers of those five functions). -/

namespace FeedVerif.Mixin

/-- **With sanitization on, every HTML-typed value of a field that may carry dangerous markup is what the sanitizer returned** (C03): the
stored value is `repair(sanitize_html(type, …))` — there is no path around the sanitizer for these elements. -/
theorem dangerous_fields_sanitized (o : Ops) (c : Core) (el out0 ty : Str) (hon : o.sanitizeOn = true)
    (hty : finalType o c el out0 = some ty) (hhtml : htmlTypes.contains (mapContentType ty) = true)
    (hd : canContainDangerous.contains el = true) :
    ∃ pre, (contentOutput o c el out0).2 = o.fix (o.sanitize ty pre) := by
  unfold finalType contentOutput at hty
  unfold contentOutput
  simp only at hty ⊢
  rw [hty]
  simp only [Option.getD_some, hhtml, hon, hd, Bool.and_self, Bool.true_and, ↓reduceIte]
  exact ⟨_, rfl⟩

/-- TABLE FACT (regenerated): every field the documentation lists as sanitized is in `can_contain_dangerous_markup` -/
theorem documented_sanitized_fields_covered :
    [S "title", S "summary", S "content", S "subtitle", S "rights", S "info", S "description", S "copyright", S "tagline"].all
      (fun k => canContainDangerous.contains k && canContainRelativeUris.contains k) = true := by decide +kernel

/-- non-vacuity: an RSS title that looks like HTML is guessed to be text/html and goes through the sanitizer (here a stub that drops everything) -/
example : (contentOutput { base := ⟨fun _ r => r, fun u => u, fun _ r => r⟩, join := fun _ u => u, fix := id, loose := false, looksHtml := fun _ => true, sanitize := fun _ _ => S "CLEAN" }
    { version := S "rss20", cp := some { type := S "text/plain", lang := none, base := "", base64 := false } } (S "title") (S "<b>x</b>")) = (some (S "text/html"), S "CLEAN") := by decide +kernel

end FeedVerif.Mixin
