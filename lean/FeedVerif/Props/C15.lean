/-
C15 — FeedParserDict behaves like the documented aliasing mapping.
Property theorems only (model: FeedVerif/Model/Dict.lean).  All statements are for an arbitrary
alias table `km` satisfying the decidable side condition `KeymapOK`, which is then checked by
kernel evaluation on the table regenerated from /repo (`keymap_ok`).
-/
import FeedVerif.Model.Dict

namespace FeedVerif.Dict

def special (k : Key) : Bool :=
  k == "category" || k == "enclosures" || k == "license" || k == "updated" || k == "updated_parsed"

/-- side conditions on an alias table under which the documented laws hold -/
def KeymapOK (km : Keymap) : Bool :=
  km.all fun (a, t) =>
    !special a &&
    match t with
    | .one k => (lookupTarget km k).isNone && k != "category" && k != "enclosures" && k != "license"
    | .many ks => !ks.isEmpty && ks.all fun k => (lookupTarget km k).isNone && !special k

/-- TABLE FACT (regenerated table): the shipped keymap has no alias chains, no alias named like a
derived key, and no empty candidate list. -/
theorem keymap_ok : KeymapOK keymap = true := by decide +kernel

/-- TABLE FACT: the documented alias families are present with the documented targets. -/
theorem keymap_documented :
    lookupTarget keymap "channel" = some (.one "feed") ∧
    lookupTarget keymap "items" = some (.one "entries") ∧
    lookupTarget keymap "guid" = some (.one "id") ∧
    lookupTarget keymap "date" = some (.one "updated") ∧
    lookupTarget keymap "modified" = some (.one "updated") ∧
    lookupTarget keymap "date_parsed" = some (.one "updated_parsed") ∧
    lookupTarget keymap "modified_parsed" = some (.one "updated_parsed") ∧
    lookupTarget keymap "issued" = some (.one "published") ∧
    lookupTarget keymap "issued_parsed" = some (.one "published_parsed") ∧
    lookupTarget keymap "description" = some (.many ["summary", "subtitle"]) ∧
    lookupTarget keymap "description_detail" = some (.many ["summary_detail", "subtitle_detail"]) ∧
    lookupTarget keymap "copyright" = some (.one "rights") ∧
    lookupTarget keymap "copyright_detail" = some (.one "rights_detail") ∧
    lookupTarget keymap "tagline" = some (.one "subtitle") ∧
    lookupTarget keymap "tagline_detail" = some (.one "subtitle_detail") ∧
    lookupTarget keymap "url" = some (.many ["href"]) := by decide +kernel

/-! ### plain-dict lemmas -/

theorem raw_rawSet_same (s : Store) (k : Key) (v : Val) : raw (rawSet s k v) k = some v := by
  simp [raw, rawSet]

theorem find_filter_ne (s : Store) (k k' : Key) (h : k' ≠ k) :
    (s.filter (·.1 != k)).find? (·.1 == k') = s.find? (·.1 == k') := by
  induction s with
  | nil => rfl
  | cons x xs ih =>
    by_cases hx : x.1 = k
    · have h1 : (x.1 != k) = false := by simp [hx]
      have h2 : (x.1 == k') = false := by simp [hx, Ne.symm h]
      simp [List.filter_cons, h1, List.find?_cons, h2, ih]
    · have h1 : (x.1 != k) = true := by simp [hx]
      by_cases hx' : x.1 = k'
      · have h3 : (x.1 == k') = true := by simp [hx']
        simp [List.filter_cons, h1, List.find?_cons, h3]
      · have h2 : (x.1 == k') = false := by simp [hx']
        simp [List.filter_cons, h1, List.find?_cons, h2, ih]

theorem raw_rawSet_other (s : Store) (k k' : Key) (v : Val) (h : k' ≠ k) :
    raw (rawSet s k v) k' = raw s k' := by
  unfold raw rawSet
  have hne : (k == k') = false := by simp [Ne.symm h]
  simp only [List.find?_cons, hne]
  rw [find_filter_ne s k k' h]

theorem raw_rawDel_same (s : Store) (k : Key) : raw (rawDel s k) k = none := by
  unfold raw rawDel
  have : (s.filter (·.1 != k)).find? (·.1 == k) = none := by
    rw [List.find?_eq_none]
    intro x hx
    simp only [List.mem_filter] at hx
    simpa using hx.2
  rw [this]; rfl

theorem raw_rawDel_other (s : Store) (k k' : Key) (h : k' ≠ k) :
    raw (rawDel s k) k' = raw s k' := by
  unfold raw rawDel
  rw [find_filter_ne s k k' h]

/-! ### the documented laws -/

/-- candidates tried, in order, by a lookup of a non-derived key -/
def candidates (km : Keymap) (key : Key) : List Key :=
  match lookupTarget km key with
  | some (.one k) => [k, key]
  | some (.many ks) => ks ++ [key]
  | none => [key]

theorem findSome_append_single (m : Key → Option Val) (ks : List Key) (key : Key) :
    (ks ++ [key]).findSome? m =
      match ks.find? (fun k => (m k).isSome) with
      | some k => m k
      | none => m key := by
  induction ks with
  | nil => simp
  | cons k ks ih =>
    simp only [List.cons_append, List.findSome?_cons, List.find?_cons]
    cases hk : m k with
    | none => simpa using ih
    | some v => simp [hk]

/-- **Lookup law.** For every key other than the five derived / read-through keys, `d[key]` is the
value of the first candidate present in the plain dict (alias targets in table order, then the key
itself), `KeyError(key)` if none is; it never warns. -/
theorem getitem_first_present (km : Keymap) (s : Store) (key : Key) (h : special key = false) :
    getitem km s key =
      match (candidates km key).findSome? (raw s) with
      | some v => .ok (v, false)
      | none => .error (.keyError key) := by
  simp only [special, Bool.or_eq_false_iff] at h
  obtain ⟨⟨⟨⟨h1, h2⟩, h3⟩, h4⟩, h5⟩ := h
  unfold getitem candidates
  simp only [h1, h2, h3, h4, h5, Bool.false_eq_true, ↓reduceIte]
  cases hl : lookupTarget km key with
  | none => simp [List.findSome?]; cases raw s key <;> rfl
  | some t =>
    cases t with
    | one k =>
      simp only [List.findSome?]
      cases hk : raw s k with
      | some v => rfl
      | none => cases raw s key <;> rfl
    | many ks =>
      rw [findSome_append_single (raw s) ks key]
      cases hf : ks.find? (fun k => (raw s k).isSome) with
      | none => simp only [hf]; cases raw s key <;> rfl
      | some k =>
        have := List.find?_some hf
        cases hk : raw s k with
        | none => simp [hk] at this
        | some v => simp only [hf, hk]

/-- **Agreement** (full statement: for every key except the documented `updated` /
`updated_parsed` pair).  Proved `_partial`: the attribute clause additionally needs
`k ∉ classAttrs` — see `attr_items_counterexample` below (known finding). -/
theorem agree_partial (km : Keymap) (s : Store) (k : Key) (d : Val)
    (h : ¬(k = "updated" ∨ k = "updated_parsed")) (hc : classAttrs.contains k = false) :
    (contains km s k = match getitem km s k with
      | .ok _ => .ok true | .error (.keyError _) => .ok false | .error e => .error e) ∧
    (get km s k d = match getitem km s k with
      | .ok (v, _) => .ok v | .error (.keyError _) => .ok d | .error e => .error e) ∧
    (getattr km s k = match getitem km s k with
      | .ok (v, w) => .val v w | .error (.keyError _) => .attributeError
      | .error .typeError => .typeError) := by
  have h1 : (k == "updated" || k == "updated_parsed") = false := by
    simp only [Bool.or_eq_false_iff, beq_eq_false_iff_ne, ne_eq]
    exact ⟨fun e => h (Or.inl e), fun e => h (Or.inr e)⟩
  refine ⟨?_, rfl, by unfold getattr; rw [hc]; rfl⟩
  unfold contains
  rw [if_neg (by simp [h1])]
  cases getitem km s k with
  | ok a => rfl
  | error e => cases e <;> rfl

/-- The full agreement statement is FALSE for attribute reads of names that normal attribute lookup
finds on the class: `d.items` is the dict method although `items` is a documented alias
(known finding C15 op/attr/family/items; same witness is replayed on the implementation). -/
theorem attr_items_counterexample :
    getattr keymap (setitem keymap [] "items" (.str "a")) "items" = .classAttr ∧
    (match getitem keymap (setitem keymap [] "items" (.str "a")) "items" with
      | .ok (v, _) => v == .str "a" | _ => false) = true := by decide +kernel

/-- **The documented exception.** With `published` present and `updated` absent, `d["updated"]`
reads through to `published` and warns, while `"updated" in d` is `False`. -/
theorem updated_readthrough (km : Keymap) (s : Store) (p : Val)
    (hu : raw s "updated" = none) (hp : raw s "published" = some p) :
    getitem km s "updated" = .ok (p, true) ∧ contains km s "updated" = .ok false ∧
    get km s "updated" (.str "") = .ok p := by
  refine ⟨?_, ?_, ?_⟩ <;> simp [getitem, contains, get, hu, hp]

theorem updated_parsed_readthrough (km : Keymap) (s : Store) (p : Val)
    (hu : raw s "updated_parsed" = none) (hp : raw s "published_parsed" = some p) :
    getitem km s "updated_parsed" = .ok (p, true) ∧ contains km s "updated_parsed" = .ok false := by
  refine ⟨?_, ?_⟩ <;> simp [getitem, contains, hu, hp]

/-- no read-through once `updated` itself is present -/
theorem updated_present_wins (km : Keymap) (s : Store) (u : Val) (hu : raw s "updated" = some u) :
    getitem km s "updated" = .ok (u, false) := by
  simp [getitem, hu]

/-- **Writes land on the canonical key** and touch nothing else. -/
theorem alias_write_lands_canonical (km : Keymap) (s : Store) (a : Key) (v : Val) :
    raw (setitem km s a v) (canon km a) = some v ∧
    ∀ k, k ≠ canon km a → raw (setitem km s a v) k = raw s k :=
  ⟨raw_rawSet_same _ _ _, fun k hk => raw_rawSet_other _ _ _ _ hk⟩

theorem lookup_mem {km : Keymap} {a : Key} {t : Target} (h : lookupTarget km a = some t) :
    (a, t) ∈ km := by
  unfold lookupTarget at h
  cases hf : km.find? (·.1 == a) with
  | none => simp [hf] at h
  | some p =>
    simp [hf] at h
    have hm := List.mem_of_find?_eq_some hf
    have hp := List.find?_some hf
    simp at hp
    cases p with
    | mk p1 p2 => simp at h hp; subst h; subst hp; exact hm

/-- **Write through an alias, read through the same alias**: for every alias of an OK table, any
store, any value. -/
theorem write_read_alias (km : Keymap) (hk : KeymapOK km = true) (s : Store) (v : Val)
    (a : Key) (t : Target) (ha : lookupTarget km a = some t) :
    getitem km (setitem km s a v) a = .ok (v, false) := by
  have hm := lookup_mem ha
  unfold KeymapOK at hk
  rw [List.all_eq_true] at hk
  have hat := hk (a, t) hm
  simp only [Bool.and_eq_true, Bool.not_eq_eq_eq_not, Bool.not_true] at hat
  obtain ⟨hsp, ht⟩ := hat
  rw [getitem_first_present km _ a hsp]
  unfold candidates setitem canon
  rw [ha]
  cases t with
  | one k => simp [List.findSome?, raw_rawSet_same]
  | many ks =>
    cases ks with
    | nil => simp at ht
    | cons k rest => simp [List.findSome?, raw_rawSet_same]

/-- **Write through one alias, read through any other alias of the same canonical key**
(e.g. set `date`, read `modified`; set `tagline`, read `subtitle`). -/
theorem write_read_sibling (km : Keymap) (s : Store) (v : Val) (a b : Key)
    (hb : lookupTarget km b = some (.one (canon km a))) (hsp : special b = false) :
    getitem km (setitem km s a v) b = .ok (v, false) := by
  rw [getitem_first_present km _ b hsp]
  unfold candidates
  rw [hb]
  simp [List.findSome?, setitem, raw_rawSet_same]

/-- reading the canonical key itself after an alias write -/
theorem write_alias_read_canonical (km : Keymap) (hk : KeymapOK km = true) (s : Store) (v : Val)
    (a : Key) (k : Key) (ha : lookupTarget km a = some (.one k)) (hsp : special k = false) :
    getitem km (setitem km s a v) k = .ok (v, false) := by
  have hm := lookup_mem ha
  unfold KeymapOK at hk
  rw [List.all_eq_true] at hk
  have hat := hk (a, .one k) hm
  simp only [Bool.and_eq_true, Bool.not_eq_eq_eq_not, Bool.not_true] at hat
  have hnone : lookupTarget km k = none := by
    have := hat.2.1.1.1
    simpa using this
  rw [getitem_first_present km _ k hsp]
  unfold candidates
  rw [hnone]
  simp [List.findSome?, setitem, canon, ha, raw_rawSet_same]

/-! ### histories: every reachable dict stores canonical keys only -/

/-- no alias name is physically present in the dict -/
def NoAliasStored (km : Keymap) (s : Store) : Prop :=
  ∀ a t, lookupTarget km a = some t → raw s a = none

theorem canon_not_alias (km : Keymap) (hk : KeymapOK km = true) (a : Key) :
    lookupTarget km (canon km a) = none := by
  unfold canon
  cases ha : lookupTarget km a with
  | none => simpa using ha
  | some t =>
    have hm := lookup_mem ha
    unfold KeymapOK at hk
    rw [List.all_eq_true] at hk
    have hat := hk (a, t) hm
    cases t with
    | one k =>
      simp only [Bool.and_eq_true] at hat
      simpa using hat.2.1.1.1
    | many ks =>
      cases ks with
      | nil => simp at hat
      | cons k rest =>
        simp only [Bool.and_eq_true, List.all_cons] at hat
        simpa using hat.2.2.1.1

theorem step_noAlias (km : Keymap) (hk : KeymapOK km = true) (s : Store) (op : Op)
    (h : NoAliasStored km s) : NoAliasStored km (stepOp km s op).1 := by
  cases op with
  | set k v =>
    intro a t hat
    simp only [stepOp, setitem]
    have hne : a ≠ canon km k := by
      intro e; have := canon_not_alias km hk k; rw [← e, hat] at this; cases this
    rw [raw_rawSet_other _ _ _ _ hne]; exact h a t hat
  | getI k => exact h
  | has k => exact h
  | getD k d => exact h
  | attr k => exact h
  | del k =>
    simp only [stepOp, delitem]
    cases hr : raw s k with
    | none => exact h
    | some v =>
      intro a t hat
      by_cases e : a = k
      · subst e; simp [raw_rawDel_same]
      · simp only [raw_rawDel_other _ _ _ e]; exact h a t hat

/-- **History invariant** (unbounded length): starting from the empty dict, after any sequence of
set / get / in / get() / getattr / del operations no alias name is stored — every write went to
its canonical key. -/
theorem history_noAlias (km : Keymap) (hk : KeymapOK km = true) (ops : List Op) :
    ∀ s, NoAliasStored km s → NoAliasStored km (runOps km s ops).1 := by
  induction ops with
  | nil => intro s h; exact h
  | cons op ops ih =>
    intro s h
    simp only [runOps]
    exact ih _ (step_noAlias km hk s op h)

theorem empty_noAlias (km : Keymap) : NoAliasStored km [] := by
  intro a t _; rfl

/-- on reachable dicts an alias lookup is decided by the alias *targets* alone: the "plain mapping
extended with aliases" reading of the documentation. -/
theorem reachable_alias_lookup (km : Keymap) (s : Store) (h : NoAliasStored km s)
    (a : Key) (k : Key) (ha : lookupTarget km a = some (.one k)) (hsp : special a = false) :
    getitem km s a = match raw s k with
      | some v => .ok (v, false) | none => .error (.keyError a) := by
  rw [getitem_first_present km s a hsp]
  unfold candidates
  rw [ha]
  simp only [List.findSome?]
  cases raw s k with
  | some v => rfl
  | none => rw [h a _ ha]

/-! ### abstract-map refinement

`Spec` is the simplest possible mapping (a function); the concrete association list refines it:
every operation's observation is computed from `abs`, and `abs` commutes with the updates. -/

abbrev Spec := Key → Option Val
def abs (s : Store) : Spec := raw s
def Spec.set (m : Spec) (k : Key) (v : Val) : Spec := fun k' => if k' = k then some v else m k'
def Spec.del (m : Spec) (k : Key) : Spec := fun k' => if k' = k then none else m k'

theorem abs_setitem (km : Keymap) (s : Store) (k : Key) (v : Val) :
    abs (setitem km s k v) = (abs s).set (canon km k) v := by
  funext k'
  unfold abs Spec.set setitem
  by_cases e : k' = canon km k
  · subst e; simp [raw_rawSet_same]
  · simp [e, raw_rawSet_other _ _ _ _ e]

theorem abs_rawDel (s : Store) (k : Key) : abs (rawDel s k) = (abs s).del k := by
  funext k'
  unfold abs Spec.del
  by_cases e : k' = k
  · subst e; simp [raw_rawDel_same]
  · simp [e, raw_rawDel_other _ _ _ e]

/-- two stores with the same abstract map are observationally equal for every operation -/
theorem obs_depends_on_abs (km : Keymap) (s s' : Store) (h : abs s = abs s') (key : Key) (d : Val) :
    getitem km s key = getitem km s' key ∧ contains km s key = contains km s' key ∧
    get km s key d = get km s' key d ∧ getattr km s key = getattr km s' key := by
  have hr : raw s = raw s' := h
  have hg : getitem km s key = getitem km s' key := by
    unfold getitem
    simp only [hr]
    have : getitem.go s = getitem.go s' := by
      funext ls
      induction ls with
      | nil => simp [getitem.go, hr]
      | cons l rest ih => simp [getitem.go, ih]
    rw [this]
  refine ⟨hg, ?_, ?_, ?_⟩
  · unfold contains; rw [hg, hr]
  · unfold get; rw [hg]
  · unfold getattr; rw [hg]

/-- one step from two stores with the same abstract map: same observation, and the two results
again have the same abstract map -/
theorem step_abs_congr (km : Keymap) (s s' : Store) (h : abs s = abs s') (op : Op) :
    (stepOp km s op).2 = (stepOp km s' op).2 ∧ abs (stepOp km s op).1 = abs (stepOp km s' op).1 := by
  cases op with
  | set k v => exact ⟨rfl, by simp only [stepOp, abs_setitem, h]⟩
  | getI k => exact ⟨by simp only [stepOp, (obs_depends_on_abs km s s' h k (.str "")).1], h⟩
  | has k => exact ⟨by simp only [stepOp, (obs_depends_on_abs km s s' h k (.str "")).2.1], h⟩
  | getD k d => exact ⟨by simp only [stepOp, (obs_depends_on_abs km s s' h k d).2.2.1], h⟩
  | attr k => exact ⟨by simp only [stepOp, (obs_depends_on_abs km s s' h k (.str "")).2.2.2], h⟩
  | del k =>
    have hr : raw s k = raw s' k := congrFun h k
    simp only [stepOp, delitem, ← hr]
    cases raw s k with
    | none => exact ⟨rfl, h⟩
    | some v => exact ⟨rfl, by simp only [abs_rawDel, h]⟩

/-- **History-level refinement** (unbounded length): the whole list of observable answers of ANY
operation sequence is a function of the abstract map the sequence starts from — the insertion order
of the concrete association list, shadowed duplicates, or how an earlier history arrived at the same
map can never show in any later answer.  This is the "behaves like a plain mapping extended with
the aliases" half of C15 for histories, not single operations. -/
theorem history_depends_on_abs (km : Keymap) (ops : List Op) :
    ∀ s s', abs s = abs s' →
      (runOps km s ops).2 = (runOps km s' ops).2 ∧ abs (runOps km s ops).1 = abs (runOps km s' ops).1 := by
  induction ops with
  | nil => intro s s' h; exact ⟨rfl, h⟩
  | cons op ops ih =>
    intro s s' h
    obtain ⟨ho, ha⟩ := step_abs_congr km s s' h op
    obtain ⟨ih1, ih2⟩ := ih _ _ ha
    simp only [runOps]
    exact ⟨by rw [ho, ih1], ih2⟩

/-- writes through two spellings of the same canonical key are indistinguishable by any later
history (e.g. `d["guid"] = v` vs `d["id"] = v`) -/
theorem alias_write_indistinguishable (km : Keymap) (s : Store) (a b : Key) (v : Val)
    (hab : canon km a = canon km b) (ops : List Op) :
    (runOps km (setitem km s a v) ops).2 = (runOps km (setitem km s b v) ops).2 :=
  (history_depends_on_abs km ops _ _ (by simp only [abs_setitem, hab])).1

/-! ### non-vacuity: concrete states meeting the hypotheses -/

example : (runOps keymap [] [.set "guid" (.str "x"), .getI "id", .has "guid", .getI "guid"]).2.length = 4 := by
  decide +kernel

example : (match getitem keymap (setitem keymap [] "date" (.str "d")) "modified" with
    | .ok (v, w) => v == .str "d" && !w | _ => false) = true := by decide +kernel

example : raw [("published", Val.str "p")] "updated" = none ∧
    raw [("published", Val.str "p")] "published" = some (.str "p") := by decide +kernel

/-- the premise of `alias_write_indistinguishable` is met by the shipped table: `guid` and `id` are two spellings of one canonical key,
and two stores built in different orders have the same abstract map -/
example : canon keymap "guid" = canon keymap "id" := by decide +kernel

example : abs (rawSet (rawSet [] "a" (Val.str "1")) "b" (.str "2")) = abs (rawSet (rawSet [] "b" (Val.str "2")) "a" (.str "1")) := by
  funext k
  by_cases ha : k = "a"
  · subst ha; decide +kernel
  · by_cases hb : k = "b"
    · subst hb; decide +kernel
    · simp [abs, raw_rawSet_other, ha, hb]

end FeedVerif.Dict
