/-
C18 — per-call options override module defaults; each option does only its job.
-/
import FeedVerif.Model.Options
import FeedVerif.Props.C04
import FeedVerif.Model.Mixin

namespace FeedVerif.Options

/-- **Option resolution**: an explicit argument wins, `None` defers to the flag's truth value. -/
theorem option_resolution (b flag : Bool) : eff (some b) flag = b ∧ eff none flag = flag := ⟨rfl, rfl⟩

/-- the three options are resolved independently of each other (jointly: 27 x 8 cases) -/
theorem options_independent (a : Args) (f : Flags) :
    (resolveOpts a f).sanitize = eff a.sanitize f.sanitize ∧
    (resolveOpts a f).resolve = eff a.resolve f.resolve ∧
    (resolveOpts a f).optimistic = eff a.optimistic f.optimistic := ⟨rfl, rfl, rfl⟩

theorem sanitize_ignores_other_options (a a' : Args) (f f' : Flags)
    (h1 : a.sanitize = a'.sanitize) (h2 : f.sanitize = f'.sanitize) :
    (resolveOpts a f).sanitize = (resolveOpts a' f').sanitize := by
  simp [resolveOpts, h1, h2]

theorem runSeq_append (f : Flags) (xs ys : List Action) :
    runSeq f (xs ++ ys) = runSeq f xs ++ runSeq (flagsAfter f xs) ys := by
  induction xs generalizing f with
  | nil => rfl
  | cons x xs ih =>
    cases x with
    | setFlags f' => simp [runSeq, flagsAfter, ih]
    | call a => simp [runSeq, flagsAfter, ih]

/-- **No leak between calls** (every history, unbounded length): the options a call sees are
determined by its own arguments and the module flags at call time; earlier calls contribute
nothing. -/
theorem call_sees_only_args_and_current_flags (f : Flags) (pre : List Action) (a : Args) :
    runSeq f (pre ++ [.call a]) = runSeq f pre ++ [resolveOpts a (flagsAfter f pre)] := by
  rw [runSeq_append]; rfl

/-- removing all earlier calls from a history changes nothing for a later call -/
theorem flagsAfter_ignores_calls (f : Flags) (pre : List Action) :
    flagsAfter f (pre.filter fun | .call _ => false | .setFlags _ => true) = flagsAfter f pre := by
  induction pre generalizing f with
  | nil => rfl
  | cons x xs ih =>
    cases x with
    | setFlags f' => simp [flagsAfter, ih]
    | call a => simp [flagsAfter, ih]

/-- **Sanitization off: markup as authored** (after URI resolution if that is on). -/
theorem sanitize_off_as_authored (o : Ops σ) (e : Eff) (h : e.sanitize = false)
    (isHtmlish inRel inDanger : Bool) (out : σ) :
    postMarkup o e isHtmlish inRel inDanger out =
      if isHtmlish && e.resolve && inRel then o.resolveMarkup out else out := by
  simp [postMarkup, h]

/-- **Resolution off: URIs inside markup left as authored** (sanitization still applies). -/
theorem resolve_off_markup_uris_untouched (o : Ops σ) (e : Eff) (h : e.resolve = false)
    (isHtmlish inRel inDanger : Bool) (out : σ) :
    postMarkup o e isHtmlish inRel inDanger out =
      if isHtmlish && e.sanitize && inDanger then o.sanitizeMarkup out else out := by
  simp [postMarkup, h]

theorem both_off_identity (o : Ops σ) (e : Eff) (h1 : e.sanitize = false) (h2 : e.resolve = false)
    (isHtmlish inRel inDanger : Bool) (out : σ) :
    postMarkup o e isHtmlish inRel inDanger out = out := by
  simp [postMarkup, h1, h2]

/-- plain text is never rewritten, whatever the options -/
theorem plain_text_untouched (o : Ops σ) (e : Eff) (inRel inDanger : Bool) (out : σ) :
    postMarkup o e false inRel inDanger out = out := by
  simp [postMarkup]

/-- both on: resolve first, then sanitize the resolved markup -/
theorem both_on_order (o : Ops σ) (e : Eff) (h1 : e.sanitize = true) (h2 : e.resolve = true) (out : σ) :
    postMarkup o e true true true out = o.sanitizeMarkup (o.resolveMarkup out) := by
  simp [postMarkup, h1, h2]

/-- **Element-level URIs are still resolved** with resolution off: the step does not look at
the options at all. -/
theorem element_uri_independent_of_options (join : σ → σ) (canBeRel nonEmpty : Bool) (out : σ) :
    elementUri join canBeRel nonEmpty out = if canBeRel && nonEmpty then join out else out := rfl

/-- emptying the scheme allow-list disables scheme filtering but nothing else (restated from
M-uri; proved in Props/C04). -/
theorem empty_allowlist (join : Uri.Str → Uri.Str → Uri.Str) (raises : Uri.Str → Bool)
    (base : Uri.Str) (rel : Option Uri.Str) :
    Uri.makeSafe [] join raises base rel = join base (rel.getD []) :=
  Uri.empty_allowlist_disables_filter_only join raises base rel

/-- the whole 27 x 8 grid, by kernel evaluation -/
theorem grid_exhaustive :
    ∀ (as ar ao : Option Bool) (fs fr fo : Bool),
      resolveOpts ⟨as, ar, ao⟩ ⟨fs, fr, fo⟩ =
        ⟨as.getD fs, ar.getD fr, ao.getD fo⟩ := by
  intro as ar ao fs fr fo
  cases as <;> cases ar <;> cases ao <;> rfl

example : runSeq ⟨true, true, true⟩ [.call ⟨none, none, none⟩, .setFlags ⟨false, true, true⟩, .call ⟨none, some false, none⟩]
    = [⟨true, true, true⟩, ⟨false, false, true⟩] := by decide

end FeedVerif.Options

/-! ### stage 2 of M-mixin: what `pop()` does to the value of a text construct (title, subtitle, rights, …)

`contentOutput` is the model of the post-processing chain of `XMLParserMixin.pop` (mixin.py:531-616) with the sanitizer, the
relative-URI resolver, `looks_like_html`, base64 and the back end's reference decoding as parameters; it is tied to the real `pop` on
every run by the M-mixin correspondence (recorded answers of those five functions). -/

namespace FeedVerif.Mixin

/-- **sanitize_html=False switches the sanitizer off and does nothing else** (C18): with the option off the result does not depend on
the sanitizer at all … -/
theorem sanitize_off_ignores_sanitizer (o : Ops) (f : Str → Str → Str) (c : Core) (el out0 : Str) (hoff : o.sanitizeOn = false) :
    contentOutput { o with sanitize := f } c el out0 = contentOutput o c el out0 := by
  unfold contentOutput
  simp only [hoff, Bool.and_false, Bool.false_and, Bool.false_eq_true, ↓reduceIte]

/-- … and the option has no other effect: were the sanitizer the identity, on and off would give the same value and type -/
theorem sanitize_option_only_sanitizes (o : Ops) (c : Core) (el out0 : Str) (hid : o.sanitize = fun _ x => x) (b : Bool) :
    contentOutput { o with sanitizeOn := b } c el out0 = contentOutput { o with sanitizeOn := !b } c el out0 := by
  unfold contentOutput
  simp only [hid]
  cases b <;> simp

/-- the same for resolve_relative_uris and the resolver of embedded markup -/
theorem resolve_off_ignores_resolver (o : Ops) (f : Str → Str → Str → Str) (c : Core) (el out0 : Str) (hoff : o.resolveOn = false) :
    contentOutput { o with resolveMarkup := f } c el out0 = contentOutput o c el out0 := by
  unfold contentOutput
  simp only [hoff, Bool.and_false, Bool.false_and, Bool.false_eq_true, ↓reduceIte]

theorem resolve_option_only_resolves (o : Ops) (c : Core) (el out0 : Str) (hid : o.resolveMarkup = fun _ _ x => x) (b : Bool) :
    contentOutput { o with resolveOn := b } c el out0 = contentOutput { o with resolveOn := !b } c el out0 := by
  unfold contentOutput
  simp only [hid]
  cases b <;> simp

/-- **The reported content type does not depend on either option**: the plain-text-or-HTML guess of the non-Atom formats (and with it `*_detail.type`) is made from the
text alone — switching sanitisation or resolution on or off, or exchanging the two transformers, never changes which type a field is reported with. -/
theorem type_guess_ignores_options (o : Ops) (c : Core) (el out0 : Str) (r s : Bool) (f : Str → Str → Str) (g : Str → Str → Str → Str) :
    finalType { o with resolveOn := r, sanitizeOn := s, sanitize := f, resolveMarkup := g } c el out0 = finalType o c el out0 := by
  unfold finalType contentOutput
  rfl

/-- element-level URIs are resolved whatever `resolve_relative_uris` says (the option governs embedded markup only) -/
theorem element_uri_resolved_regardless (o : Ops) (c : Core) (el out0 : Str) (b : Bool)
    (hu : canBeRelativeUri.contains el = true) (hne : out0.isEmpty = false) (hid : el ≠ S "id")
    (hb : cpBase64 c = false)
    (hnm : canContainRelativeUris.contains el = false) :
    contentOutput { o with resolveOn := b } c el out0 = contentOutput o c el out0 := by
  unfold contentOutput
  simp only [hnm, Bool.and_false, Bool.false_eq_true, ↓reduceIte]

/-- non-vacuity: the same HTML-typed subtitle under the four option settings, with stub transformers that mark what ran -/
example :
    let o : Ops := { base := ⟨fun _ r => r, fun u => u, fun _ r => r⟩, join := fun _ u => u, fix := id, loose := false,
                     sanitize := fun _ x => x ++ S "+S", resolveMarkup := fun _ _ x => x ++ S "+R" }
    let c : Core := { version := S "atom10", cp := some { type := S "text/html", lang := none, base := "", base64 := false } }
    ((contentOutput { o with sanitizeOn := true, resolveOn := true } c (S "subtitle") (S "v")).2,
     (contentOutput { o with sanitizeOn := false, resolveOn := true } c (S "subtitle") (S "v")).2,
     (contentOutput { o with sanitizeOn := true, resolveOn := false } c (S "subtitle") (S "v")).2,
     (contentOutput { o with sanitizeOn := false, resolveOn := false } c (S "subtitle") (S "v")).2) = (S "v+R+S", S "v+R", S "v+S", S "v") := by decide +kernel

end FeedVerif.Mixin
