/-
C06 — declared character encodings are honoured (RFC 3023) and text round-trips.
Model: FeedVerif/Model/Enc.lean (codecs are the parameter `decodes`).
-/
import FeedVerif.Model.Enc

namespace FeedVerif.Enc

/-! ### sniffing -/

/-- the five byte-order marks are recognised and stripped; UTF-32LE is tested before UTF-16LE
(its BOM starts with the UTF-16LE BOM), and a UTF-16 BOM followed by two NUL bytes is not taken
for UTF-16 -/
theorem sniff_boms (rest : List Nat) :
    sniff (0x00 :: 0x00 :: 0xFE :: 0xFF :: rest) = ("utf-32be", 4) ∧
    sniff (0xFF :: 0xFE :: 0x00 :: 0x00 :: rest) = ("utf-32le", 4) ∧
    sniff (0xEF :: 0xBB :: 0xBF :: rest) = ("utf-8", 3) ∧
    sniff (0xFF :: 0xFE :: 0x3C :: 0x00 :: rest) = ("utf-16le", 2) ∧
    sniff (0xFE :: 0xFF :: 0x00 :: 0x3C :: rest) = ("utf-16be", 2) := by
  refine ⟨rfl, rfl, rfl, rfl, rfl⟩

/-- the five `<?xm` signatures are recognised (nothing stripped) -/
theorem sniff_signatures (rest : List Nat) :
    sniff (0x4C :: 0x6F :: 0xA7 :: 0x94 :: rest) = ("cp037", 0) ∧
    sniff (0x00 :: 0x3C :: 0x00 :: 0x3F :: rest) = ("utf-16be", 0) ∧
    sniff (0x3C :: 0x00 :: 0x3F :: 0x00 :: rest) = ("utf-16le", 0) ∧
    sniff (0x00 :: 0x00 :: 0x00 :: 0x3C :: rest) = ("utf-32be", 0) ∧
    sniff (0x3C :: 0x00 :: 0x00 :: 0x00 :: rest) = ("utf-32le", 0) := by
  refine ⟨rfl, rfl, rfl, rfl, rfl⟩

/-- an ASCII-compatible document that starts with `<?xm` or `<rss` has no sniffed encoding -/
theorem sniff_ascii (rest : List Nat) :
    sniff (0x3C :: 0x3F :: 0x78 :: 0x6D :: rest) = ("", 0) ∧ sniff (0x3C :: 0x72 :: 0x73 :: 0x73 :: rest) = ("", 0) := by
  refine ⟨rfl, rfl⟩

/-! ### the RFC 3023 decision table -/

/-- application/*xml: HTTP charset, then XML declaration, then utf-8 -/
theorem rfc3023_application (i : Inputs) (h : classify i = .appXml) :
    chosen i = gbUp (pyOr i.httpEnc (pyOr (normXml i) "utf-8")) := by
  simp [chosen, h]

/-- text/*xml: HTTP charset else us-ascii — the XML declaration and the BOM are ignored -/
theorem rfc3023_text (i : Inputs) (h : classify i = .textXml) :
    chosen i = gbUp (pyOr i.httpEnc "us-ascii") := by
  simp [chosen, h]

theorem text_xml_ignores_declaration (i : Inputs) (x b : String) (h : classify i = .textXml) :
    chosen { i with xmlDecl := x, bom := b } = chosen i := by
  have hc : classify { i with xmlDecl := x, bom := b } = .textXml := by
    unfold classify at h ⊢; exact h
  simp [chosen, h, hc]

/-- no headers at all (or an unrecognised non-text type): declaration, then BOM, then utf-8 -/
theorem rfc3023_no_headers (i : Inputs) (h : classify i = .other) :
    chosen i = gbUp (pyOr (normXml i) (pyOr i.bom "utf-8")) := by
  simp [chosen, h]

theorem classify_no_headers (i : Inputs) (h1 : i.hasHeaders = false) (h2 : i.ctype = "") (h3 : i.looksJson = false) :
    classify i = .other := by
  unfold classify
  simp [h1, h2, h3, startsWith, endsWith]

/-- gb2312 is upgraded to gb18030 wherever it is chosen -/
theorem gb2312_upgraded (e : String) (h : e.toLower = "gb2312") : gbUp e = "gb18030" := by
  simp [gbUp, h]

/-- a generic UTF-16/32 name in the declaration is replaced by the byte order that was sniffed -/
theorem generic_name_normalised (i : Inputs) (hb : i.bom ≠ "") (hx : genericNames.contains i.xmlDecl = true) :
    normXml i = i.bom := by
  unfold normXml
  have : (i.bom ≠ "" && genericNames.contains i.xmlDecl) = true := by
    rw [hx]; simp [hb]
  rw [if_pos this]

/-! ### trial decoding and error reporting -/

theorem trial_sound (decodes : String → Bool) (cs tried : List String) (u : String)
    (h : trial decodes cs tried = some u) : decodes u = true ∧ u ∈ cs ∧ u ≠ "" := by
  induction cs generalizing tried with
  | nil => simp [trial] at h
  | cons c rest ih =>
    unfold trial at h
    by_cases h1 : (c == "" || tried.contains c) = true
    · rw [if_pos h1] at h
      have := ih tried h
      exact ⟨this.1, List.mem_cons_of_mem _ this.2.1, this.2.2⟩
    · rw [if_neg h1] at h
      by_cases h2 : decodes c = true
      · rw [if_pos h2] at h
        cases h
        simp only [Bool.or_eq_true, beq_iff_eq, not_or] at h1
        exact ⟨h2, List.mem_cons_self .., h1.1⟩
      · rw [if_neg h2] at h
        have := ih (c :: tried) h
        exact ⟨this.1, List.mem_cons_of_mem _ this.2.1, this.2.2⟩

/-- **Correctly labelled ⇒ clean**: if the codec chosen by the decision table decodes the data, it is
the codec used, `encoding` names it, and no encoding error is reported (only a media-type error,
and only for a non-XML media type). -/
theorem correctly_labelled_clean (i : Inputs) (decodes : String → Bool)
    (hne : chosen i ≠ "") (hd : decodes (chosen i) = true) :
    (decide i decodes).encoding = chosen i ∧
    ((decide i decodes).error = .none ∨ ((decide i decodes).error = .nonXml ∧ acceptable i = false)) := by
  have ht : trial decodes (candidates i) [] = some (chosen i) := by
    unfold candidates trial
    have : (chosen i == "" || ([] : List String).contains (chosen i)) = false := by simp [hne]
    rw [this]; simp [hd]
  unfold decide
  simp only [ht, bne_self_eq_false, Bool.false_eq_true, ↓reduceIte]
  refine ⟨trivial, ?_⟩
  by_cases ha : acceptable i = true
  · left; simp [ha]
  · by_cases hh : i.hasHeaders = true
    · right; simp [hh, ha]
    · left; simp [hh]

/-- **Override iff the used codec differs from the choice** (and `encoding` names the codec used) -/
theorem override_iff (i : Inputs) (decodes : String → Bool) :
    (decide i decodes).error = .override ↔
      ∃ u, trial decodes (candidates i) [] = some u ∧ u ≠ chosen i := by
  unfold decide
  cases ht : trial decodes (candidates i) [] with
  | none => simp
  | some u =>
    by_cases hu : u = chosen i
    · subst hu
      simp only [bne_self_eq_false, Bool.false_eq_true, ↓reduceIte]
      constructor
      · intro h; split at h <;> cases h
      · rintro ⟨u, hu, hne⟩; cases hu; exact absurd rfl hne
    · have : (u != chosen i) = true := by simp [hu]
      simp only [this, ↓reduceIte, true_iff]
      exact ⟨u, rfl, hu⟩

theorem override_reports_used_codec (i : Inputs) (decodes : String → Bool)
    (h : (decide i decodes).error = .override) :
    decodes (decide i decodes).encoding = true ∧ (decide i decodes).encoding ≠ chosen i := by
  obtain ⟨u, hu, hne⟩ := (override_iff i decodes).mp h
  have hs := trial_sound decodes _ _ u hu
  unfold decide
  have : (u != chosen i) = true := by simp [hne]
  simp only [hu, this, ↓reduceIte]
  exact ⟨hs.1, hne⟩

/-- unknown ⇔ no candidate decodes; then `encoding` is empty -/
theorem unknown_iff (i : Inputs) (decodes : String → Bool) :
    (decide i decodes).error = .unknown ↔ trial decodes (candidates i) [] = none := by
  unfold decide
  cases ht : trial decodes (candidates i) [] with
  | none => simp
  | some u =>
    simp only [reduceCtorEq, iff_false]
    split
    · simp
    · split <;> simp

/-- **A non-XML media type does not stop parsing**: the data is still decoded (encoding non-empty)
whenever some candidate decodes; only the error class says NonXMLContentType. -/
theorem nonxml_still_decoded (i : Inputs) (decodes : String → Bool) (u : String)
    (ht : trial decodes (candidates i) [] = some u) : (decide i decodes).encoding ≠ "" := by
  have hs := trial_sound decodes _ _ u ht
  unfold decide
  simp only [ht]
  split
  · exact hs.2.2
  · rename_i h
    have : u = chosen i := by simpa using h
    rw [← this]; exact hs.2.2

/-! ### the declaration rewrite touches only the declaration -/

/-- if the text starts with an XML declaration `d` (no `>` inside), only `d` is replaced -/
theorem decl_rewrite_only_decl (body rest : Str) (hb : ∀ c ∈ body, c ≠ '>') :
    rewriteDecl false ("<?xml".toList ++ body ++ '>' :: rest) = newDecl ++ rest := by
  unfold rewriteDecl matchDecl
  simp only [Bool.false_eq_true, ↓reduceIte]
  have : ("<?xml".toList ++ body ++ '>' :: rest) = '<' :: '?' :: 'x' :: 'm' :: 'l' :: (body ++ '>' :: rest) := by
    simp
  rw [this]
  simp only
  have hd : (body ++ '>' :: rest).dropWhile (· != '>') = '>' :: rest := by
    clear this
    induction body with
    | nil => simp
    | cons b bs ih =>
      have hb1 : b ≠ '>' := hb b (by simp)
      simp only [List.cons_append, List.dropWhile_cons, bne_iff_ne, ne_eq, hb1, not_false_eq_true, ↓reduceIte]
      exact ih (fun c hc => hb c (by simp [hc]))
  rw [hd]

/-- otherwise the new declaration is prepended and the text is kept whole -/
theorem decl_rewrite_prepends (t : Str) (h : matchDecl t = none) :
    rewriteDecl false t = newDecl ++ '\n' :: t := by
  simp [rewriteDecl, h]

/-- JSON is passed through untouched -/
theorem decl_rewrite_json (t : Str) : rewriteDecl true t = t := by simp [rewriteDecl]

/-! ### non-vacuity / witnesses -/

/-- BOM-only UTF-16LE, no declaration, no headers: the BOM decides (after the `fix:` commit);
before it `chosen` was "utf-8" and the feed was reported with CharacterEncodingOverride. -/
example : decide ⟨"utf-16le", "", false, false, "", "", false⟩ (fun e => e == "utf-16le") =
    ⟨"utf-16le", .none, "", false⟩ := by decide +kernel
example : decide ⟨"", "iso-8859-1", true, true, "text/xml", "", false⟩ (fun e => e != "us-ascii") =
    ⟨"iso-8859-1", .override, "text/xml", false⟩ := by decide +kernel
example : decide ⟨"", "", true, true, "text/plain", "utf-8", false⟩ (fun _ => true) =
    ⟨"utf-8", .nonXml, "text/plain", false⟩ := by decide +kernel
example : parseContentType "application/atom+xml; charset=\"UTF-8\" ; q=1".toList =
    ("application/atom+xml".toList, "UTF-8".toList) := by decide +kernel

end FeedVerif.Enc
