/-
C01 — parse() is total: never raises, always returns a well-shaped result.
Models: FeedVerif/Model/Mixin.lean (stage 1) for the handler machine, FeedVerif/Model/Api.lean for
the result assembly.  What a Lean model can say about "never raises": every failure point of the
modelled code is either an explicit outcome or a totalised operation whose guard is PROVED to hold
in every reachable state.
-/
import FeedVerif.Model.Mixin
import FeedVerif.Model.Api
import FeedVerif.Props.C20
import FeedVerif.Lemmas.Mixin

namespace FeedVerif.Mixin

/-! ### `entries[-1]` cannot raise IndexError

`_get_context` evaluates `self.entries[-1]` whenever `inentry` is set (mixin.py:779-780); the model
totalises that as `updHead` (a no-op on the empty list).  The invariant below shows the totalised
branch is never taken: in every reachable state, `inentry` implies there is a last entry. -/

def EntryInv (c : Core) : Prop := c.inentry = true → c.entries ≠ []

theorem entryInv_init : EntryInv {} := by intro h; cases h

theorem updHead_ne_nil (f : Entry → Entry) (l : List Entry) (h : l ≠ []) : updHead f l ≠ [] := by
  cases l with
  | nil => exact absurd rfl h
  | cons e es => simp [updHead]

theorem track_entryInv (c : Core) (p : Option Str) (u : Str) (h : EntryInv c) : EntryInv (trackNamespace c p u) := by
  have := track_older c p u
  intro hi
  rw [this.2] at hi
  rw [this.1]
  exact h hi

theorem setContext_entryInv (c : Core) (k : Str) (v : V) (h : EntryInv c) : EntryInv (setContext c k v) := by
  unfold setContext
  by_cases hin : c.inentry = true
  · simp only [hin, ↓reduceIte]
    intro _
    exact updHead_ne_nil _ _ (h hin)
  · have hf : c.inentry = false := by simpa using hin
    simp only [hf, Bool.false_eq_true, ↓reduceIte]
    intro hi
    cases hi

theorem startPre_entryInv (o : Ops) (c : Core) (tag : Str) (attrs : List (Str × Str)) (h : EntryInv c) :
    EntryInv (startPre o c tag attrs).1 := by
  have key : (startPre o c tag attrs).1.entries = c.entries ∧ (startPre o c tag attrs).1.inentry = c.inentry := by
    unfold startPre
    simp only
    have hf := foldl_track_older (attrs.map (normAttr o.loose))
    split
    · split
      · exact ⟨(hf _).1, (hf _).2⟩
      · exact ⟨(hf _).1, (hf _).2⟩
    · exact ⟨(hf _).1, (hf _).2⟩
  intro hi
  rw [key.2] at hi
  rw [key.1]
  exact h hi

theorem dispatch_entryInv (c : Core) (hn : Str) (attrsD : List (Str × Str)) (c' : Core) (pe : Option Elem)
    (h : EntryInv c) (hd : dispatchCore c hn attrsD = .ok (c', pe)) : EntryInv c' := by
  unfold dispatchCore at hd
  split at hd
  · injection hd with hd
    split at hd <;> (injection hd with h1 _; rw [← h1]; exact h)
  · split at hd
    · split at hd
      · cases hd
      · split at hd
        · injection hd with hd; injection hd with h1 _; rw [← h1]; exact h
        · split at hd
          · injection hd with hd
            split at hd <;> (injection hd with h1 _; rw [← h1]; exact h)
          · simp only at hd
            injection hd with hd; injection hd with h1 _
            rw [← h1]
            have base : EntryInv { c with entries := {} :: c.entries, inentry := true } := by intro _; simp
            split
            · split
              · exact base
              · exact setContext_entryInv _ _ _ base
            · exact base
    · split at hd
      · injection hd with hd; injection hd with h1 _; rw [← h1]; exact h
      · split at hd
        · rw [(startContent_ok _ _ _ _ _ _ _ hd).1]; exact fun hi => h hi
        · split at hd
          · rw [(startContent_ok _ _ _ _ _ _ _ hd).1]; exact fun hi => h hi
          · split at hd
            · cases hd
            · simp only at hd
              split at hd
              · injection hd with hd; injection hd with h1 _; rw [← h1]; exact h
              · injection hd with hd; injection hd with h1 _; rw [← h1]; exact setContext_entryInv _ _ _ h

theorem pop_entryInv (o : Ops) (s : MSt) (el : Str) (h : EntryInv s.c) : EntryInv (pop o s el).c := by
  unfold pop
  split
  · exact h
  · split
    · exact h
    · simp only
      split
      · exact h
      · split
        · exact h
        · split
          · rename_i hin
            intro _
            exact updHead_ne_nil _ _ (h hin)
          · split
            · exact h
            · exact h

theorem popFull_entryInv (o : Ops) (s : MSt) (el : Str) (h : EntryInv s.c) : EntryInv (popFull o s el).2.c := by
  unfold popFull
  split
  · exact h
  · split
    · exact h
    · simp only
      split
      · exact h
      · split
        · exact h
        · split
          · exact h
          · split
            · rename_i hin
              have hin' : s.c.inentry = true := by simp only [Bool.and_eq_true] at hin; exact hin.1
              intro _
              exact updHead_ne_nil _ _ (h hin')
            · split
              · rename_i hin
                intro _
                simp only
                split
                · exact updHead_ne_nil _ _ (updHead_ne_nil _ _ (h hin))
                · exact updHead_ne_nil _ _ (h hin)
              · split
                · exact h
                · exact h

theorem popContent_entryInv (o : Ops) (s : MSt) (k : Str) (h : EntryInv s.c) : EntryInv (popContent o s k).2.c :=
  fun hi => popFull_entryInv o s k h hi

theorem step_entryInv (o : Ops) (s : MSt) (e : MEv) (s' : MSt) (h : EntryInv s.c) (hs : mstep o s e = .ok s') : EntryInv s'.c := by
  cases e with
  | start tag attrs =>
    simp only [mstep, startTag] at hs
    split at hs
    · cases hs
    simp only [startTag0] at hs
    have hp := startPre_entryInv o s.c tag attrs h
    cases hx : extKind (handlerName (startPre o s.c tag attrs).1 tag) with
    | some kind =>
      rw [hx] at hs
      simp only at hs
      cases hr : startExt (startPre o s.c tag attrs).1 kind (startPre o s.c tag attrs).2 with
      | error w => rw [hr] at hs; simp [applyExt] at hs
      | ok r =>
        obtain ⟨c', es⟩ := r
        have hf := startExt_frame _ _ _ _ _ hr
        rw [hr] at hs
        simp only [applyExt, Outcome.ok.injEq] at hs
        rw [← hs]
        intro hi
        simp only at hi ⊢
        rw [hf.1]
        rw [hf.2.1] at hi
        exact hp hi
    | none =>
    rw [hx] at hs
    simp only at hs
    cases hl : lgKind (handlerName (startPre o s.c tag attrs).1 tag) with
    | some kind =>
      rw [hl] at hs
      simp only at hs
      cases hr : startLG o (startPre o s.c tag attrs).1 kind (startPre o s.c tag attrs).2 with
      | error w => rw [hr] at hs; simp [applyExt] at hs
      | ok r =>
        obtain ⟨c', es⟩ := r
        have hf := startLG_frame4 _ _ _ _ _ _ hr
        rw [hr] at hs
        simp only [applyExt, Outcome.ok.injEq] at hs
        rw [← hs]
        intro hi
        simp only at hi ⊢
        rw [hf.1] at hi
        exact hf.nonempty (hp hi)
    | none =>
    rw [hl] at hs
    simp only at hs
    cases hd : dispatchCore (startPre o s.c tag attrs).1 (handlerName (startPre o s.c tag attrs).1 tag) (startPre o s.c tag attrs).2 with
    | error w => rw [hd] at hs; simp [applyDispatch] at hs
    | ok r =>
      obtain ⟨c', pe⟩ := r
      have := dispatch_entryInv _ _ _ c' pe hp hd
      rw [hd] at hs
      cases pe with
      | none => simp only [applyDispatch, Outcome.ok.injEq] at hs; rw [← hs]; exact this
      | some el => simp only [applyDispatch, Outcome.ok.injEq] at hs; rw [← hs]; exact this
  | stop tag =>
    simp only [mstep, endTag] at hs
    split at hs
    · split at hs
      · rename_i kind _
        rw [endExt_ok o s s' kind hs]
        have hf := endExtCore_frame o s kind
        have hp := popContent_entryInv o s (endPlan s.c kind).1 h
        intro hi
        simp only [endFinish] at hi ⊢
        rw [hf.1] at hi
        exact endExtCore_nonempty o s kind (hp hi)
      obtain ⟨k, top, rest, _, _, _, hs'⟩ := endContent_ok o s s' _ hs
      rw [hs']
      have ha := afterTitle_frame k (popContent o s k)
      have hp := popContent_entryInv o s k h
      intro hi
      simp only [endFinish] at hi ⊢
      rw [ha.1]; rw [ha.2.1] at hi
      exact hp hi
    split at hs
    · cases hs
    simp only [endTag0] at hs
    split at hs
    · injection hs with hs; rw [← hs]; exact h
    · split at hs
      · injection hs with hs; rw [← hs]; intro hi; simp [endFinish] at hi
      · split at hs
        · obtain ⟨c1, st, hf, hs', _⟩ := endLG_ok o s s' _ hs
          rw [hs']
          intro hi
          simp only [endFinish] at hi ⊢
          rw [hf.1] at hi
          exact hf.nonempty (h hi)
        · split at hs
          · injection hs with hs; rw [← hs]
            exact setContext_entryInv _ _ _ (pop_entryInv o s _ h)
          · split at hs
            · cases hs
            · injection hs with hs; rw [← hs]; exact pop_entryInv o s _ h
  | data t =>
    simp only [mstep] at hs
    injection hs with hs
    rw [← hs]
    unfold handleData
    split <;> exact h
  | ns p u =>
    simp only [mstep] at hs
    injection hs with hs
    rw [← hs]
    exact track_entryInv s.c p u h
  | cref r =>
    simp only [mstep] at hs
    split at hs
    · injection hs with hs
      rw [← hs]
      unfold handleData
      split <;> exact h
    · cases hs
  | eref r =>
    simp only [mstep] at hs
    injection hs with hs
    rw [← hs]
    unfold handleData
    split <;> exact h

/-- **In every reachable state `inentry` implies a last entry exists**: for every event sequence over
the modelled vocabulary — balanced or not, stray end tags, unclosed or self-nested elements — the
`entries[-1]` of `_get_context` cannot raise. -/
theorem inentry_has_entry (o : Ops) (evs : List MEv) : ∀ s s', EntryInv s.c → mrun o s evs = .ok s' → EntryInv s'.c := by
  induction evs with
  | nil => intro s s' h hr; simp only [mrun] at hr; injection hr with hr; rw [← hr]; exact h
  | cons e rest ih =>
    intro s s' h hr
    simp only [mrun] at hr
    split at hr
    · rename_i s1 hs1
      exact ih s1 s' (step_entryInv o s e s1 h hs1) hr
    · cases hr

/-! ### the machine never gets stuck on handler-less vocabulary

`mstep` answers `unmodelled` only where a dedicated handler (outside stage 1) would run or the CDF
attributes appear; on everything else — in particular on every arrangement of structural and
handler-less elements — it yields a state: `pop` on an empty or mismatched stack returns (mixin.py:
485-489), `handle_data` outside any element is dropped (mixin.py:400-403). -/

def Modelled (c : Core) : MEv → Prop
  | .start tag attrs =>
      c.incontent = false ∧
      ∀ o : Ops, extKind (handlerName (startPre o c tag attrs).1 tag) = none ∧ lgKind (handlerName (startPre o c tag attrs).1 tag) = none ∧
        (dispatchCore (startPre o c tag attrs).1 (handlerName (startPre o c tag attrs).1 tag) (startPre o c tag attrs).2).isOk = true
  | .stop tag => let h := handlerName c tag
      c.incontent = false ∧ contentEndKey h = none ∧ extKind h = none ∧ lgKind h = none ∧
      (h == S "channel" || h == S "feed" || h == S "item" || h == S "entry" || (dateKey h).isSome || !hasEnd h) = true
  | _ => True

/-- `handle_charref` is total: whatever digit string (or anything else) the tokenizer hands over, some text is appended.  Before the fix: commit ff44fef this
was false of the CODE at digit strings of more than 4300 characters (`int()` raises `ValueError`); the model's `parseNat` has no such limit, and making the
model total is what exposed the difference. -/
theorem crefText_total (r : Str) : (crefText r).isSome = true := by
  unfold crefText
  simp only []
  split
  · rfl
  · split
    · rfl
    · split <;> rfl

theorem step_total (o : Ops) (s : MSt) (e : MEv) (hm : Modelled s.c e) : ∃ s', mstep o s e = .ok s' := by
  cases e with
  | start tag attrs =>
    simp only [mstep, startTag, hm.1, Bool.false_eq_true, ↓reduceIte, startTag0, (hm.2 o).1, (hm.2 o).2.1]
    have := (hm.2 o).2.2
    cases hd : dispatchCore (startPre o s.c tag attrs).1 (handlerName (startPre o s.c tag attrs).1 tag) (startPre o s.c tag attrs).2 with
    | error w => rw [hd] at this; simp [Except.isOk, Except.toBool] at this
    | ok r =>
      obtain ⟨c', pe⟩ := r
      cases pe with
      | none => exact ⟨_, rfl⟩
      | some el => exact ⟨_, rfl⟩
  | stop tag =>
    simp only [Modelled] at hm
    obtain ⟨hm1, hm2, hm3, hm4, hm⟩ := hm
    simp only [mstep, endTag, hm1, hm2, hm3, hm4, Bool.false_eq_true, ↓reduceIte, Option.isSome_none, Bool.or_self, endTag0]
    by_cases c1 : (handlerName s.c tag == S "channel" || handlerName s.c tag == S "feed") = true
    · simp only [c1, ↓reduceIte]; exact ⟨_, rfl⟩
    · simp only [c1, Bool.false_eq_true, ↓reduceIte]
      by_cases c2 : (handlerName s.c tag == S "item" || handlerName s.c tag == S "entry") = true
      · simp only [c2, ↓reduceIte]; exact ⟨_, rfl⟩
      · simp only [c2, Bool.false_eq_true, ↓reduceIte]
        cases hdk : dateKey (handlerName s.c tag) with
        | some kp => exact ⟨_, rfl⟩
        | none =>
          simp only
          have c1' : (handlerName s.c tag == S "channel" || handlerName s.c tag == S "feed") = false := by simpa using c1
          have c2' : (handlerName s.c tag == S "item" || handlerName s.c tag == S "entry") = false := by simpa using c2
          simp only [Bool.or_eq_false_iff] at c1' c2'
          simp only [c1'.1, c1'.2, c2'.1, c2'.2, hdk, Option.isSome_none, Bool.or_self, Bool.false_or, Bool.not_eq_true'] at hm
          simp only [hm, Bool.false_eq_true, ↓reduceIte]
          exact ⟨_, rfl⟩
  | data t => exact ⟨_, rfl⟩
  | ns p u => exact ⟨_, rfl⟩
  | cref r =>
    simp only [mstep]
    cases hc : crefText r with
    | some t => exact ⟨_, rfl⟩
    | none => have := crefText_total r; rw [hc] at this; cases this
  | eref r => exact ⟨_, rfl⟩

/-! ### …nor on the hand-modelled element handlers of stages 4, 5 and 7

link, guid / id, category (dc:subject, keywords), enclosure, author (dc:creator, managingEditor, itunes:author) with name / email / uri children, contributor, webMaster /
dc:publisher, itunes:owner, cloud, generator: every start tag and every end tag of these — in ANY state outside a text construct, on any element stack, with any attributes —
yields a state.  (The branches where the real code runs into an AttributeError that `unknown_starttag` swallows — `links` / `authors` / `contributors` replaced by a same-named element —
are modelled as what then happens, not as failures; see `startLink`, `startAuthorKinds`.) -/

theorem lg_start_total (o : Ops) (s : MSt) (tag : Str) (attrs : List (Str × Str)) (kind : Str) (hnc : s.c.incontent = false)
    (hx : extKind (handlerName (startPre o s.c tag attrs).1 tag) = none)
    (hl : lgKind (handlerName (startPre o s.c tag attrs).1 tag) = some kind) : ∃ s', mstep o s (.start tag attrs) = .ok s' := by
  have hok := startLG_isOk o (startPre o s.c tag attrs).1 kind (startPre o s.c tag attrs).2
  rw [lgKind_ok _ kind hl] at hok
  simp only [mstep, startTag, hnc, Bool.false_eq_true, ↓reduceIte, startTag0, hx, hl]
  cases hr : startLG o (startPre o s.c tag attrs).1 kind (startPre o s.c tag attrs).2 with
  | error w => rw [hr] at hok; simp [Except.isOk, Except.toBool] at hok
  | ok r => exact ⟨_, rfl⟩

theorem lg_end_total (o : Ops) (s : MSt) (tag : Str) (kind : Str) (hnc : s.c.incontent = false)
    (hl : lgKind (handlerName s.c tag) = some kind) : ∃ s', mstep o s (.stop tag) = .ok s' := by
  obtain ⟨_, _, hce, hex, _, n2, n3, n4, n5⟩ := lgKind_facts _ kind hl
  have hok := endLG_isOk o s kind
  rw [lgKind_ok _ kind hl] at hok
  simp only [mstep, endTag, hnc, Bool.false_eq_true, ↓reduceIte, hce, hex, Option.isSome_none, Bool.or_self, endTag0, n2, n3, n4, n5, hl]
  cases hr : endLG o s kind with
  | unmodelled w => rw [hr] at hok; cases hok
  | ok s' => exact ⟨_, rfl⟩

/-! ### an open text construct always has content parameters -/

def CpInv (c : Core) : Prop := c.incontent = true → c.cp.isSome = true

theorem cpInv_init : CpInv {} := by intro h; cases h

theorem startExt_cp (s : Core) (kind : Str) (a : List (Str × Str)) (c' : Core) (es : List Elem)
    (h : startExt s kind a = .ok (c', es)) : c'.cp.isSome = true := by
  unfold startExt at h
  simp only at h
  have L : ∀ (s0 : Core) k ty e, startContentL s0 k a ty e = .ok (c', es) → c'.cp.isSome = true := by
    intro s0 k ty e hh
    rw [(startContentL_ok _ _ _ _ _ _ _ hh).1]; rfl
  have E : ∀ (s0 : Core), startContentElem s0 a = .ok (c', es) → c'.cp.isSome = true := by
    intro s0 hh
    rw [(startContentElem_ok _ _ _ _ hh).1]; rfl
  split at h
  · split at h
    · exact E _ h
    · exact L _ _ _ _ h
  · split at h
    · exact L _ _ _ _ h
    · split at h
      · split at h
        · exact E _ h
        · exact L _ _ _ _ h
      · split at h
        · exact E _ h
        · split at h
          · exact L _ _ _ _ h
          · cases h

theorem dispatch_cpInv (c : Core) (hn : Str) (attrsD : List (Str × Str)) (c' : Core) (pe : Option Elem)
    (hc : c.incontent = false) (hd : dispatchCore c hn attrsD = .ok (c', pe)) : CpInv c' := by
  unfold dispatchCore at hd
  have keep : ∀ d : Core, d.incontent = false → CpInv d := by intro d hd hi; rw [hd] at hi; cases hi
  split at hd
  · injection hd with hd
    split at hd <;> (injection hd with h1 _; rw [← h1]; exact keep _ hc)
  · split at hd
    · split at hd
      · cases hd
      · split at hd
        · injection hd with hd; injection hd with h1 _; rw [← h1]; exact keep _ hc
        · split at hd
          · injection hd with hd
            split at hd <;> (injection hd with h1 _; rw [← h1]; exact keep _ hc)
          · simp only at hd
            injection hd with hd; injection hd with h1 _
            rw [← h1]
            split
            · split
              · exact keep _ hc
              · apply keep; unfold setContext; split <;> exact hc
            · exact keep _ hc
    · split at hd
      · injection hd with hd; injection hd with h1 _; rw [← h1]; exact keep _ hc
      · split at hd
        · rw [(startContent_ok _ _ _ _ _ _ _ hd).1]; exact fun _ => rfl
        · split at hd
          · rw [(startContent_ok _ _ _ _ _ _ _ hd).1]; exact fun _ => rfl
          · split at hd
            · cases hd
            · simp only at hd
              split at hd
              · injection hd with hd; injection hd with h1 _; rw [← h1]; exact keep _ hc
              · injection hd with hd; injection hd with h1 _; rw [← h1]
                apply keep; unfold setContext; split <;> exact hc

theorem pop_incontent (o : Ops) (s : MSt) (el : Str) : (pop o s el).c.incontent = s.c.incontent := by
  unfold pop
  split
  · rfl
  · split
    · rfl
    · simp only
      split
      · rfl
      · split
        · rfl
        · split
          · rfl
          · split <;> rfl

theorem step_cpInv (o : Ops) (s : MSt) (e : MEv) (s' : MSt) (h : CpInv s.c) (hs : mstep o s e = .ok s') : CpInv s'.c := by
  have keep : ∀ d : Core, d.incontent = false → CpInv d := by intro d hd hi; rw [hd] at hi; cases hi
  cases e with
  | start tag attrs =>
    simp only [mstep, startTag] at hs
    split at hs
    · cases hs
    rename_i hnc
    have hnc' : s.c.incontent = false := by simpa using hnc
    simp only [startTag0] at hs
    have hpi : (startPre o s.c tag attrs).1.incontent = false := by
      have key : (startPre o s.c tag attrs).1.incontent = s.c.incontent := by
        unfold startPre
        simp only
        have hf : ∀ (l : List (Str × Str)) (c : Core), (l.foldl (fun st kv =>
            if (S "xmlns:").isPrefixOf kv.1 then trackNamespace st (some (kv.1.drop 6)) kv.2
            else if kv.1 == S "xmlns" then trackNamespace st none kv.2 else st) c).incontent = c.incontent := by
          intro l
          induction l with
          | nil => intro c; rfl
          | cons a rest ih =>
            intro c
            simp only [List.foldl_cons]
            have ht : ∀ p u, (trackNamespace c p u).incontent = c.incontent := by
              intro p u; unfold trackNamespace; simp only; split <;> rfl
            split
            · rw [ih, ht]
            · split
              · rw [ih, ht]
              · rw [ih]
        split
        · split <;> rw [hf]
        · rw [hf]
      rw [key]; exact hnc'
    cases hx : extKind (handlerName (startPre o s.c tag attrs).1 tag) with
    | some kind =>
      rw [hx] at hs
      simp only at hs
      cases hr : startExt (startPre o s.c tag attrs).1 kind (startPre o s.c tag attrs).2 with
      | error w => rw [hr] at hs; simp [applyExt] at hs
      | ok r =>
        obtain ⟨c', es⟩ := r
        rw [hr] at hs
        simp only [applyExt, Outcome.ok.injEq] at hs
        rw [← hs]
        exact fun _ => startExt_cp _ _ _ _ _ hr
    | none =>
      rw [hx] at hs
      simp only at hs
      cases hl : lgKind (handlerName (startPre o s.c tag attrs).1 tag) with
      | some kind =>
        rw [hl] at hs
        simp only at hs
        cases hr : startLG o (startPre o s.c tag attrs).1 kind (startPre o s.c tag attrs).2 with
        | error w => rw [hr] at hs; simp [applyExt] at hs
        | ok r =>
          obtain ⟨c', es⟩ := r
          have hf := startLG_frame4 _ _ _ _ _ _ hr
          rw [hr] at hs
          simp only [applyExt, Outcome.ok.injEq] at hs
          rw [← hs]
          apply keep
          exact hf.2.2.2.2.2.2.2.1.trans hpi
      | none =>
      rw [hl] at hs
      simp only at hs
      cases hd : dispatchCore (startPre o s.c tag attrs).1 (handlerName (startPre o s.c tag attrs).1 tag) (startPre o s.c tag attrs).2 with
      | error w => rw [hd] at hs; simp [applyDispatch] at hs
      | ok r =>
        obtain ⟨c', pe⟩ := r
        have := dispatch_cpInv _ _ _ c' pe hpi hd
        rw [hd] at hs
        cases pe with
        | none => simp only [applyDispatch, Outcome.ok.injEq] at hs; rw [← hs]; exact this
        | some el => simp only [applyDispatch, Outcome.ok.injEq] at hs; rw [← hs]; exact this
  | stop tag =>
    simp only [mstep, endTag] at hs
    split at hs
    · split at hs
      · rename_i kind _
        rw [endExt_ok o s s' kind hs]
        apply keep
        exact (endExtCore_frame o s kind).2.2.2.1
      · obtain ⟨k, top, rest, _, _, _, hs'⟩ := endContent_ok o s s' _ hs
        rw [hs']
        apply keep
        have ha := afterTitle_frame k (popContent o s k)
        simp only [endFinish, ha.2.2.2.2.2.2.2.2.2.1]
        rfl
    rename_i hnc
    have hnc' : s.c.incontent = false := by simpa using hnc
    split at hs
    · cases hs
    simp only [endTag0] at hs
    split at hs
    · injection hs with hs; rw [← hs]; exact keep _ hnc'
    · split at hs
      · injection hs with hs; rw [← hs]; apply keep; simp only [endFinish]; rw [pop_incontent]; exact hnc'
      · split at hs
        · obtain ⟨c1, st, hf, hs', _⟩ := endLG_ok o s s' _ hs
          rw [hs']
          apply keep
          simp only [endFinish]
          exact hf.2.2.2.2.2.2.2.1.trans hnc'
        · split at hs
          · injection hs with hs; rw [← hs]; apply keep
            simp only [endFinish]
            unfold setContext
            split <;> (simp only; rw [pop_incontent]; exact hnc')
          · split at hs
            · cases hs
            · injection hs with hs; rw [← hs]; apply keep; simp only [endFinish]; rw [pop_incontent]; exact hnc'
  | data t =>
    simp only [mstep] at hs
    injection hs with hs
    rw [← hs]
    unfold handleData
    split <;> exact h
  | ns p u =>
    simp only [mstep] at hs
    injection hs with hs
    rw [← hs]
    intro hi
    have ht : (trackNamespace s.c p u).incontent = s.c.incontent ∧ (trackNamespace s.c p u).cp = s.c.cp := by
      unfold trackNamespace; simp only; split <;> exact ⟨rfl, rfl⟩
    simp only at hi ⊢
    rw [ht.2]; rw [ht.1] at hi
    exact h hi
  | cref r =>
    simp only [mstep] at hs
    split at hs
    · injection hs with hs
      rw [← hs]
      unfold handleData
      split <;> exact h
    · cases hs
  | eref r =>
    simp only [mstep] at hs
    injection hs with hs
    rw [← hs]
    unfold handleData
    split <;> exact h

/-- **An open text construct always has content parameters**: in every state reachable from the initial one — over every event sequence in
the model's domain — `incontent` implies that `contentparams` is non-empty.  So `_end_content`'s `self.contentparams.get("type")` is never
`None` there (no AttributeError inside the handler), and the totalised branch of `copyToSummary` is never taken. -/
theorem content_has_params (o : Ops) (evs : List MEv) : ∀ s s', CpInv s.c → mrun o s evs = .ok s' → CpInv s'.c := by
  induction evs with
  | nil => intro s s' h hr; simp only [mrun] at hr; injection hr with hr; rw [← hr]; exact h
  | cons e rest ih =>
    intro s s' h hr
    simp only [mrun] at hr
    split at hr
    · rename_i s1 hs1
      exact ih s1 s' (step_cpInv o s e s1 h hs1) hr
    · cases hr

/-- non-vacuity: after `<title>` the invariant's premise holds and so does its conclusion -/
example : (match mrun looseOps { c := { infeed := true } } [.start (S "title") []] with
    | .ok s => s.c.incontent && s.c.cp.isSome
    | .unmodelled _ => false) = true := by decide +kernel

/-- stray end tags on an EMPTY element stack, data outside every element: concrete totality -/
example : (match mrun looseOps {} [.stop (S "item"), .stop (S "x:y"), .data (S "t"), .stop (S "channel"), .start (S "item") [], .stop (S "item"), .stop (S "item")] with
    | .ok s => s.c.entries.length == 1 && !s.c.inentry && s.stack.isEmpty
    | .unmodelled _ => false) = true := by decide +kernel

end FeedVerif.Mixin

namespace FeedVerif.Api

/-! ### result shape and bozo pairing (M-api) -/

/-- `bozo`, `entries`, `feed`, `headers` are ALWAYS present — whatever the stages did -/
theorem shape_always (s : Stages) : ∀ k ∈ baseKeys, k ∈ (parse s).keys := by
  intro k hk
  unfold parse
  split
  · simp [hk]
  · simp only
    split <;> simp [hk]

/-- for non-empty content `encoding`, `version` and `namespaces` are present too -/
theorem shape_nonempty (s : Stages) (hu : s.urlError = false) (he : isEmpty s = false) :
    "encoding" ∈ (parse s).keys ∧ "version" ∈ (parse s).keys ∧ "namespaces" ∈ (parse s).keys := by
  unfold parse
  simp [hu, he]

/-- `bozo` is set exactly when an exception is attached, and then `bozo_exception` is a key — and only then -/
theorem bozo_iff_exception (s : Stages) :
    (parse s).bozo = (parse s).exc.isSome ∧ (("bozo_exception" ∈ (parse s).keys) ↔ (parse s).bozo = true) := by
  obtain ⟨a, b, c, d, e, f, g, h, i, j, k, l, m⟩ := s
  revert a b c d e f g h i j k l m
  decide +kernel

/-- a SAX failure always ends in `bozo` with the loose parser's (or, failing that, the JSON parser's) data -/
theorem sax_failure_is_bozo (s : Stages) (hu : s.urlError = false) (he : isEmpty s = false)
    (hrun : s.encodingKnown = true ∧ s.xmlAvailable = true ∧ s.jsonType = false) (hf : s.saxFails = true) :
    (parse s).bozo = true ∧ Parser.loose ∈ (parse s).ran := by
  unfold parse
  obtain ⟨h1, h2, h3⟩ := hrun
  simp only [hu, he, h1, h2, h3, hf]
  constructor
  · simp only [Bool.false_eq_true, ↓reduceIte, Bool.and_self, Bool.not_false, Bool.not_true, Bool.false_or]
    split <;> simp
  · simp

/-- a clean strict pass with a clean conversion leaves bozo unset and runs nothing else -/
theorem clean_strict_pass (s : Stages) (hu : s.urlError = false) (he : isEmpty s = false) (ht : s.transportFails = false)
    (hrun : s.encodingKnown = true ∧ s.xmlAvailable = true ∧ s.jsonType = false) (hc : s.convError = false) (hf : s.saxFails = false) :
    (parse s).bozo = false ∧ (parse s).ran = [Parser.strict] := by
  unfold parse
  obtain ⟨h1, h2, h3⟩ := hrun
  simp [hu, he, h1, h2, h3, hf, hc, ht]

/-- a failed transfer: bozo set, the transport exception attached, no parser constructed (C17) -/
theorem transport_failure (s : Stages) (hu : s.urlError = false) (hi : s.isUrl = true) (ht : s.transportFails = true) :
    (parse s).bozo = true ∧ (parse s).exc = some .transport ∧ (parse s).ran = [] := by
  unfold parse isEmpty
  simp [hu, hi, ht]

example : (parse { urlError := false, empty := false, encodingKnown := true, jsonType := false, convError := true, xmlAvailable := true,
                   saxFails := true, looseEmpty := true, jsonFails := true }).exc = some .json := by decide

end FeedVerif.Api
