import FeedVerif.Model.Enc
import FeedVerif.Model.Proto
namespace FeedVerif.Enc
open FeedVerif.Proto

def encErr : Err → String
  | .none => "none" | .nonXml => "NonXMLContentType" | .override => "CharacterEncodingOverride" | .unknown => "CharacterEncodingUnknown"

def b (w : String) : Bool := w == "1"

/--
`sniff <b0> <b1> <b2> <b3>` (hex bytes, `-` when the data is shorter) → `<bom> <skip>`
`decide <head bytes ×4> <xmlDecl> <hasHeaders> <hasCT> <content-type header value> <looksJson> <decodable names…>`
   → `<encoding> <error> <ctype>`; the model sniffs the BOM itself and parses the Content-Type itself.
`rewrite <json:0|1> <text>` → rewritten text
-/
def driverStep (ws : List String) : String :=
  let bytesOf (l : List String) : List Nat := l.filterMap parseHex
  match ws with
  | ["sniff", b0, b1, b2, b3] =>
    let r := sniff (bytesOf [b0, b1, b2, b3]); enc r.1 ++ " " ++ toString r.2
  | "decide" :: b0 :: b1 :: b2 :: b3 :: xd :: hh :: hct :: ct :: lj :: ok =>
    match dec xd, decChars ct with
    | some xd, some ct =>
      let (bom, _) := sniff (bytesOf [b0, b1, b2, b3])
      let (mime, cs) := parseContentType ct
      let oks := ok.filterMap dec
      let i : Inputs := { bom := bom, xmlDecl := xd, hasHeaders := b hh, hasCT := b hct,
                          ctype := String.ofList mime, httpEnc := String.ofList cs, looksJson := b lj }
      let o := decide i (fun e => oks.contains e)
      enc o.encoding ++ " " ++ encErr o.error ++ " " ++ enc o.ctype
    | _, _ => "bad-op"
  | ["rewrite", j, t] =>
    match decChars t with
    | some t => encChars (rewriteDecl (b j) t)
    | none => "bad-op"
  | _ => "bad-op"

end FeedVerif.Enc
