import FeedVerif.Model.Stream
import FeedVerif.Model.Prefix
/-!
Driver glue for M-stream.  Byte strings are comma-separated decimals, `_` = empty.
`stream pw <prefix> <rest> <caps> <op>…` with ops `r<n>` (sized read) / `ra` (read all) → chunks joined by `|`;
`stream open <form> <content> <pos>` → `<payload> <callerOwned>`; `stream probe <content> <pos>` → `<empty?> <pos after>`.
-/
namespace FeedVerif.Stream

def decBytes (s : String) : Option Bytes :=
  if s == "_" then some [] else (s.splitOn ",").mapM String.toNat?

def encBytes (b : Bytes) : String := if b.isEmpty then "_" else ",".intercalate (b.map toString)

def runOps (w : PW) : List String → Option (List Bytes)
  | [] => some []
  | op :: rest =>
    if op == "ra" then
      let (c, w') := w.readAll
      (runOps w' rest).map (c :: ·)
    else if op.startsWith "r" then
      match (op.drop 1).toString.toNat? with
      | some n =>
        let (c, w') := w.readN n
        (runOps w' rest).map (c :: ·)
      | none => none
    else none

def driverStep (ws : List String) : String :=
  match ws with
  | "pw" :: p :: r :: c :: ops =>
    match decBytes p, decBytes r, decBytes c with
    | some p, some r, some c =>
      match runOps { «prefix» := p, file := ⟨r, c⟩ } ops with
      | some chunks => "|".intercalate (chunks.map encBytes)
      | none => "bad-op"
    | _, _, _ => "bad-op"
  | ["open", form, content, pos] =>
    match decBytes content, pos.toNat? with
    | some c, some p =>
      let src : Option Source := if form == "bytes" then some (.bytes (c.drop p)) else if form == "seekable" then some (.seekable c p)
        else if form == "nonseekable" then some (.nonSeekable c p) else if form == "path" then some (.path (c.drop p)) else none
      match src with
      | some s => let o := openResource s; encBytes o.payload ++ " " ++ (if o.callerOwned then "1" else "0")
      | none => "bad-op"
    | _, _ => "bad-op"
  | ["probe", content, pos] =>
    match decBytes content, pos.toNat? with
    | some c, some p => let r := probe ⟨c, p⟩; (if r.1 then "1" else "0") ++ " " ++ toString r.2.pos
    | _, _ => "bad-op"
  | ["retry", start, pos, len, script] =>
    -- M-prefix: `stream retry <start> <pos> <content length> <b,score,utf;b,score,utf;…>`: the scripted answers of convert_to_utf8 for
    -- prefixes ending at pos+0, pos+1, … (the last entry repeats); answers `<offset> <bozo> <score> <utf> <converted length>`
    match start.toNat?, pos.toNat?, len.toNat? with
    | some st, some ps, some n =>
      let entries : List (Bool × Nat × Bool) := (script.splitOn ";").filterMap fun e =>
        match e.splitOn "," with
        | [b, sc, u] => (sc.toNat?).map fun k => (b == "1", k, u == "1")
        | _ => none
      let conv (b : Prefix.Bytes) : Prefix.R :=
        let i := (st + b.length) - ps
        let e := (entries[i]?).getD ((entries.getLast?).getD (false, 0, true))
        ⟨b, e.1, e.2.1, e.2.2⟩
      match Prefix.boundarySearch conv (List.range n) st ps with
      | some (off, r) => s!"{off} {if r.bozo then 1 else 0} {r.excScore} {if r.utf then 1 else 0} {r.out.length}"
      | none => "none"
    | _, _, _ => "bad-op"
  | _ => "bad-op"

end FeedVerif.Stream
