import FeedVerif.Model.Date
import FeedVerif.Model.Proto
/-! Driver glue for M-date. -/
namespace FeedVerif.Date
open FeedVerif.Proto FeedVerif.Civil

def encT : Option Tuple9 → String
  | none => "none"
  | some t => s!"{t.y} {t.m} {t.d} {t.hh} {t.mm} {t.ss} {t.wday} {t.yday} 0"

def asciiOnly (s : Str) : Bool := s.all (fun c => c.toNat < 128)

def decHRes (w : String) : Option HRes :=
  if w == "R" then some .raises else if w == "F" then some .falsy else if w == "U" then some .unsized
  else match w.splitOn ":" with
    | ["S", l, i] => match l.toNat?, i.toNat? with | some l, some i => some (.sized l i) | _, _ => none
    | _ => none

/--
`rfc822 s` · `w3dtf s` · `asctime s` → 9 ints | none | unmodelled
`ord2ymd n` → y m d ; `ymd2ord y m d` → n
`dispatch <empty:0|1> <HRes…>` → id | none   (results of the registered handlers, newest first)
-/
def driverStep (ws : List String) : String :=
  match ws with
  | ["rfc822", s] => match decChars s with
    | some s => if asciiOnly s then encT (parseRfc822 s) else "unmodelled"
    | none => "bad-op"
  | ["w3dtf", s] => match decChars s with
    | some s => if asciiOnly s then encT (parseW3dtf s) else "unmodelled"
    | none => "bad-op"
  | ["asctime", s] => match decChars s with
    | some s => if asciiOnly s then encT (parseAsctime s) else "unmodelled"
    | none => "bad-op"
  | ["ord2ymd", n] => match n.toNat? with
    | some n => let o := ord2ymd n; s!"{o.1} {o.2.1} {o.2.2}"
    | none => "bad-op"
  | ["ymd2ord", y, m, d] => match y.toNat?, m.toNat?, d.toNat? with
    | some y, some m, some d => toString (ymd2ord y m d)
    | _, _, _ => "bad-op"
  | "dispatch" :: e :: rs =>
    match rs.mapM decHRes with
    | some rs => (match dispatch (e == "1") rs with | some i => toString i | none => "none")
    | none => "bad-op"
  | _ => "bad-op"

end FeedVerif.Date
