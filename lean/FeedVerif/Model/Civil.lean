/-
M-date (civil arithmetic) — Python's proleptic Gregorian ordinal algorithms
(`datetime._days_before_year`, `_days_before_month`, `_ymd2ord`, `_ord2ymd`), transcribed.
-/
namespace FeedVerif.Civil

def isLeap (y : Nat) : Bool := y % 4 == 0 && (y % 100 != 0 || y % 400 == 0)
def dby (year : Nat) : Nat := (year - 1) * 365 + (year - 1) / 4 - (year - 1) / 100 + (year - 1) / 400
def yearLen (y : Nat) : Nat := if isLeap y then 366 else 365

def dbm (m : Nat) : Nat :=
  match m with
  | 1 => 0 | 2 => 31 | 3 => 59 | 4 => 90 | 5 => 120 | 6 => 151
  | 7 => 181 | 8 => 212 | 9 => 243 | 10 => 273 | 11 => 304 | 12 => 334 | _ => 0
def dim (leap : Bool) (m : Nat) : Nat :=
  match m with
  | 2 => if leap then 29 else 28
  | 4 => 30 | 6 => 30 | 9 => 30 | 11 => 30
  | _ => 31
def dbmL (leap : Bool) (m : Nat) : Nat := dbm m + (if m > 2 && leap then 1 else 0)

def ymd2ord (y m d : Nat) : Nat := dby y + dbmL (isLeap y) m + d

/-- month/day part of `_ord2ymd`: `n` = 0-based day of year -/
def monthDay (leap : Bool) (n : Nat) : Nat × Nat :=
  let month := (n + 50) >>> 5
  let preceding := dbmL leap month
  if preceding > n then (month - 1, n - (preceding - dim leap (month - 1)) + 1)
  else (month, n - preceding + 1)

/-- Python's `_ord2ymd` -/
def ord2ymd (n0 : Nat) : Nat × Nat × Nat :=
  let m := n0 - 1
  let a := m / 146097
  let r1 := m % 146097
  let b := r1 / 36524
  let r2 := r1 % 36524
  let c := r2 / 1461
  let r3 := r2 % 1461
  let e := r3 / 365
  let u := r3 % 365
  if e = 4 ∨ b = 4 then (400*a + 100*b + 4*c + e + 1 - 1, 12, 31)
  else
    let leapyear := e == 3 && (c != 24 || b == 3)
    let md := monthDay leapyear u
    (400*a + 100*b + 4*c + e + 1, md.1, md.2)


end FeedVerif.Civil
