/-
M-san — `HTMLSanitizer` (sanitizer.py:736-838) as a token filter over sgmllib's callbacks, followed
by the serializer of `BaseHTMLProcessor` (html.py:149-290).  The tokenizer itself (sgmllib +
feedparser's regex overrides) is third-party and NOT modelled: the model consumes the callback
sequence.  Tables are a parameter (`Tables`); `shipped` instantiates them with the tables
regenerated from /repo.  `make_safe_absolute_uri`, `html.unescape` and `sanitize_style` enter
through `Ops` (theorems quantify over them; the driver receives their real results as oracle values).
-/
import FeedVerif.Gen.Sanitizer

namespace FeedVerif.San

abbrev Str := List Char
abbrev Attr := Str × Str

def s (x : String) : Str := x.toList

structure Tables where
  acc : List Str          -- acceptable_elements
  accA : List Str         -- acceptable_attributes
  mathE : List Str        -- mathml_elements
  mathA : List Str        -- mathml_attributes
  svgE : List Str         -- svg_elements, lower-cased (as after the lazy initialisation)
  svgA : List Str         -- svg_attributes, lower-cased
  svgEMap : List (Str × Str)   -- svg_elem_map: lower → camelCase
  svgAMap : List (Str × Str)   -- svg_attr_map
  unacc : List Str        -- unacceptable_elements_with_end_tag
  voidE : List Str        -- elements_no_end_tag
  entities : List Str     -- html.entities.name2codepoint names (+ "apos")
  cp1252 : List (Nat × Nat)

def mapGet (m : List (Str × Str)) (k : Str) : Str :=
  match m.find? (·.1 == k) with
  | some p => p.2
  | none => k

structure Ops where
  /-- result of the href branch (sanitizer.py:807-816): `make_safe_absolute_uri(v)` if
  `make_safe_absolute_uri(html.unescape(v))` is non-empty, else "" -/
  safeHref : Str → Str
  /-- `sanitize_style(value)` with the sanitizer's current `svgOK` truth value -/
  style : Bool → Str → Str

structure St where
  unacceptable : Int := 0
  mathmlOK : Nat := 0
  svgOK : Nat := 0
deriving DecidableEq, Repr

inductive Tok
  | stag (tag : Str) (attrs : List Attr)
  | etag (tag : Str)
  | text (x : Str)
  | charref (ref : Str)
  | entref (ref : Str)
  | comment (x : Str)
  | pi (x : Str)
  | decl (x : Str)
  | mdecl (x : Str)                          -- a marked section `<![…]>` (sgmllib's `unknown_decl`): no handler anywhere, nothing is emitted
deriving Repr

inductive Piece
  | stag (tag : Str) (attrs : List Attr)     -- attrs already escaped
  | etag (tag : Str)
  | text (x : Str)
  | ref (x : Str)                             -- a character / entity reference piece
  | comment (x : Str)
deriving Repr

def MATHML : Str := s "http://www.w3.org/1998/Math/MathML"
def SVG : Str := s "http://www.w3.org/2000/svg"
def XLINK : Str := s "http://www.w3.org/1999/xlink"

/-! ### attribute normalisation (html.py:162-179) -/

def lowerS (x : Str) : Str := x.map Char.toLower

/-- `dict(attrs).get(k)` -/
def dictGet (attrs : List Attr) (k : Str) : Option Str :=
  (attrs.reverse.find? (·.1 == k)).map (·.2)

/-- `{k.lower(): v for k, v in attrs}` as an ordered list: position of first occurrence, value of last -/
def toDict : List Attr → List Attr
  | [] => []
  | (k, v) :: rest =>
    let k' := lowerS k
    let rest' := toDict rest
    match rest'.find? (·.1 == k') with
    | some p => (k', p.2) :: rest'.filter (·.1 != k')
    | none => (k', v) :: rest'

def ltStr : Str → Str → Bool
  | [], [] => false
  | [], _ :: _ => true
  | _ :: _, [] => false
  | a :: x, b :: y => if a.toNat < b.toNat then true else if a.toNat > b.toNat then false else ltStr x y

def insertSorted (a : Attr) : List Attr → List Attr
  | [] => [a]
  | b :: rest => if ltStr b.1 a.1 then b :: insertSorted a rest else a :: b :: rest

def sortAttrs (l : List Attr) : List Attr := l.foldr insertSorted []

def normalizeAttrs (attrs : List Attr) : List Attr :=
  sortAttrs ((toDict attrs).map fun (k, v) => (k, if k == s "rel" || k == s "type" then lowerS v else v))

/-! ### serializer escaping (html.py:191-198) -/

def wordc (c : Char) : Bool :=
  (97 ≤ c.toNat && c.toNat ≤ 122) || (65 ≤ c.toNat && c.toNat ≤ 90) || (48 ≤ c.toNat && c.toNat ≤ 57) || c.toNat == 95
def isDigit (c : Char) : Bool := 48 ≤ c.toNat && c.toNat ≤ 57
def isHex (c : Char) : Bool := isDigit c || (97 ≤ c.toNat && c.toNat ≤ 102) || (65 ≤ c.toNat && c.toNat ≤ 70)

/-- what follows `&` makes it a reference: `#\d+;` | `#x[0-9a-fA-F]+;` | `\w+;` -/
def looksLikeRef (r : Str) : Bool :=
  (match r with
    | '#' :: 'x' :: t => !(t.takeWhile isHex).isEmpty && (t.dropWhile isHex).head? == some ';'
    | _ => false) ||
  (match r with
    | '#' :: t => !(t.takeWhile isDigit).isEmpty && (t.dropWhile isDigit).head? == some ';'
    | _ => false) ||
  (!(r.takeWhile wordc).isEmpty && (r.dropWhile wordc).head? == some ';')

/-- `bare_ampersand.sub("&amp;", value)` -/
def escAmp : Str → Str
  | [] => []
  | c :: rest => if c == '&' && !looksLikeRef rest then s "&amp;" ++ escAmp rest else c :: escAmp rest

def escChar (c : Char) : Str :=
  if c = '>' then s "&gt;" else if c = '<' then s "&lt;" else if c = '"' then s "&quot;" else [c]

/-- value escaping in `unknown_starttag`: `>` `<` `"` first, then bare ampersands -/
def escapeAttr (v : Str) : Str := escAmp (v.flatMap escChar)

/-! ### the filter -/

def cleanAttrs (o : Ops) (svg : Bool) (allowed : List Str) (amap : List (Str × Str)) (attrs : List Attr) : List Attr :=
  (normalizeAttrs attrs).filterMap fun (k, v) =>
    if k = s "style" ∧ allowed.contains (s "style") then
      let cv := o.style svg v
      if cv.isEmpty then none else some (k, escapeAttr cv)
    else if allowed.contains k then
      let k' := mapGet amap k
      some (k', escapeAttr (if k' = s "href" ∨ k' = s "xlink:href" then o.safeHref v else v))
    else none

/-- attributes after the implicit-namespace step of `unknown_starttag` (sanitizer.py:758-764) -/
def preAttrs (isHtml : Bool) (tag : Str) (attrs : List Attr) : List Attr :=
  let noXmlns := ((dictGet attrs (s "xmlns")).getD []).isEmpty
  if isHtml && noXmlns then
    (if tag = s "svg" then attrs ++ [(s "xmlns", SVG)] else attrs) ++
    (if tag = s "math" then [(s "xmlns", MATHML)] else [])
  else attrs

/-- state bookkeeping of `unknown_starttag` for a tag that is not plainly acceptable
(sanitizer.py:755-772), field by field -/
def preSt (t : Tables) (st : St) (tag : Str) (attrs' : List Attr) : St :=
  { unacceptable := if t.unacc.contains tag then st.unacceptable + 1 else st.unacceptable,
    mathmlOK := if tag = s "math" ∧ attrs'.contains (s "xmlns", MATHML) then st.mathmlOK + 1 else st.mathmlOK,
    svgOK := if tag = s "svg" ∧ attrs'.contains (s "xmlns", SVG) then st.svgOK + 1 else st.svgOK }

def pre (t : Tables) (isHtml : Bool) (st : St) (tag : Str) (attrs : List Attr) : St × List Attr :=
  (preSt t st tag (preAttrs isHtml tag attrs), preAttrs isHtml tag attrs)

/-- declare the xlink namespace when needed (sanitizer.py:795-799) -/
def addXlink (st : St) (attrs : List Attr) : List Attr :=
  if (st.mathmlOK > 0 || st.svgOK > 0) && attrs.any (fun a => (s "xlink:").isPrefixOf a.1) &&
      !attrs.contains (s "xmlns:xlink", XLINK) then attrs ++ [(s "xmlns:xlink", XLINK)] else attrs

/-- which attribute list applies, or bail -/
def emit (t : Tables) (o : Ops) (st : St) (tag : Str) (attrs : List Attr) : Option Piece :=
  if st.mathmlOK > 0 ∧ t.mathE.contains tag then
    some (.stag tag (cleanAttrs o (st.svgOK > 0) t.mathA [] (addXlink st attrs)))
  else if st.svgOK > 0 ∧ t.svgE.contains tag then
    some (.stag (mapGet t.svgEMap tag) (cleanAttrs o true t.svgA t.svgAMap (addXlink st attrs)))
  else if ¬ t.acc.contains tag then none
  else some (.stag tag (cleanAttrs o (st.svgOK > 0) t.accA [] (addXlink st attrs)))

/-- `unknown_starttag` -/
def start (t : Tables) (o : Ops) (isHtml : Bool) (st : St) (tag : Str) (attrs : List Attr) : St × Option Piece :=
  if ¬ t.acc.contains tag ∨ st.svgOK > 0 then
    ((pre t isHtml st tag attrs).1, emit t o (pre t isHtml st tag attrs).1 tag (pre t isHtml st tag attrs).2)
  else (st, some (.stag tag (cleanAttrs o false t.accA [] (addXlink st attrs))))

def stopSt (t : Tables) (st : St) (tag : Str) : St :=
  if ¬ t.acc.contains tag then
    let st := if t.unacc.contains tag then { st with unacceptable := st.unacceptable - 1 } else st
    if st.mathmlOK > 0 ∧ t.mathE.contains tag then
      (if tag = s "math" then { st with mathmlOK := st.mathmlOK - 1 } else st)
    else if st.svgOK > 0 ∧ t.svgE.contains tag then
      (if mapGet t.svgEMap tag = s "svg" then { st with svgOK := st.svgOK - 1 } else st)
    else st
  else st

def stopEmit (t : Tables) (st : St) (tag : Str) : Option Piece :=
  if ¬ t.acc.contains tag then
    if st.mathmlOK > 0 ∧ t.mathE.contains tag then some (.etag tag)
    else if st.svgOK > 0 ∧ t.svgE.contains tag then some (.etag (mapGet t.svgEMap tag))
    else none
  else some (.etag tag)

def stop (t : Tables) (st : St) (tag : Str) : St × Option Piece := (stopSt t st tag, stopEmit t st tag)

def natOfDec (x : Str) : Nat := x.foldl (fun a c => a * 10 + (c.toNat - 48)) 0
def hexVal (c : Char) : Nat := if isDigit c then c.toNat - 48 else if c.toNat ≥ 97 then c.toNat - 87 else c.toNat - 55
def natOfHex (x : Str) : Nat := x.foldl (fun a c => a * 16 + hexVal c) 0
def hexDigit (n : Nat) : Char := if n < 10 then Char.ofNat (48 + n) else Char.ofNat (87 + n)
def toHexS (n : Nat) : Str :=
  if n = 0 then ['0'] else
  let rec go (fuel n : Nat) (acc : Str) : Str :=
    match fuel with
    | 0 => acc
    | fuel + 1 => if n = 0 then acc else go fuel (n / 16) (hexDigit (n % 16) :: acc)
  go 16 n []

/-- `handle_charref` (html.py:217-233): windows-1252 extensions are mapped to their code points -/
def charrefValue (ref : Str) : Nat := match ref with | 'x' :: h => natOfHex h | _ => natOfDec ref

def charrefPiece (t : Tables) (ref0 : Str) : Str :=
  let ref := lowerS ref0
  match t.cp1252.find? (·.1 == charrefValue ref) with
  | some p => s "&#x" ++ toHexS p.2 ++ [';']        -- "&#%s;" % hex(ord(c))[1:]
  | none => s "&#" ++ ref ++ [';']

/-- `handle_entityref` (html.py:235-247) -/
def entrefPiece (t : Tables) (ref : Str) : Str :=
  if t.entities.contains ref then '&' :: ref ++ [';'] else s "&amp;" ++ ref

def step (t : Tables) (o : Ops) (isHtml : Bool) (st : St) : Tok → St × Option Piece
  | .stag tag attrs => start t o isHtml st tag attrs
  | .etag tag => stop t st tag
  | .text x => (st, if st.unacceptable = 0 then some (.text x) else none)
  | .charref r => (st, some (.ref (charrefPiece t r)))
  | .entref r => (st, some (.ref (entrefPiece t r)))
  | .comment c => (st, some (.comment c))
  | .pi _ => (st, none)
  | .decl _ => (st, none)
  | .mdecl _ => (st, none)

def run (t : Tables) (o : Ops) (isHtml : Bool) : St → List Tok → List Piece
  | _, [] => []
  | st, tok :: rest =>
    match step t o isHtml st tok with
    | (st', some p) => p :: run t o isHtml st' rest
    | (st', none) => run t o isHtml st' rest

/-- final state (for the driver) -/
def runSt (t : Tables) (o : Ops) (isHtml : Bool) : St → List Tok → St
  | st, [] => st
  | st, tok :: rest => runSt t o isHtml (step t o isHtml st tok).1 rest

/-! ### serializer (html.py:181-215, 249-290) -/

def serializePiece (t : Tables) : Piece → Str
  | .stag tag attrs =>
    let sa := (attrs.map fun (k, v) => ' ' :: k ++ s "=\"" ++ v ++ ['"']).flatten
    if t.voidE.contains tag then '<' :: tag ++ sa ++ s " />" else '<' :: tag ++ sa ++ ['>']
  | .etag tag => if t.voidE.contains tag then [] else s "</" ++ tag ++ ['>']
  | .text x => x
  | .ref x => x
  | .comment c => s "<!--" ++ c ++ s "-->"

def serialize (t : Tables) (ps : List Piece) : Str := (ps.map (serializePiece t)).flatten

/-! ### shipped tables -/

def L (l : List String) : List Str := l.map String.toList
def LM (l : List (String × String)) : List (Str × Str) := l.map fun p => (p.1.toList, p.2.toList)

def shipped : Tables :=
  { acc := L Gen.Sanitizer.acceptableElements, accA := L Gen.Sanitizer.acceptableAttributes,
    mathE := L Gen.Sanitizer.mathmlElements, mathA := L Gen.Sanitizer.mathmlAttributes,
    svgE := L Gen.Sanitizer.svgElementsLower, svgA := L Gen.Sanitizer.svgAttributesLower,
    svgEMap := LM Gen.Sanitizer.svgElemMap, svgAMap := LM Gen.Sanitizer.svgAttrMap,
    unacc := L Gen.Sanitizer.unacceptableElementsWithEndTag, voidE := L Gen.Sanitizer.elementsNoEndTag,
    entities := L Gen.Sanitizer.entityNames, cp1252 := Gen.Sanitizer.cp1252 }

end FeedVerif.San

namespace FeedVerif.San

/-! ### RelativeURIResolver (urls.py:119-174, after the `fix:` commit) as a token filter -/

/-- `unknown_starttag` of the resolver: normalise, replace the values of table attributes by the
safe join, serialise -/
def resolverStart (relTable : List (Str × Str)) (resolve : Str → Str) (tag : Str) (attrs : List Attr) : Piece :=
  .stag tag ((normalizeAttrs attrs).map fun (k, v) =>
    (k, escapeAttr (if relTable.contains (tag, k) then resolve v else v)))

/-- every other callback is the plain `BaseHTMLProcessor` behaviour (nothing is dropped):
pieces as strings, since PIs and declarations are re-emitted too -/
def resolverStep (t : Tables) (relTable : List (Str × Str)) (resolve : Str → Str) : Tok → Str
  | .stag tag attrs => serializePiece t (resolverStart relTable resolve tag attrs)
  | .etag tag => serializePiece t (.etag tag)
  | .text x => x
  | .charref r => charrefPiece t r
  | .entref r => entrefPiece t r
  | .comment c => s "<!--" ++ c ++ s "-->"
  | .pi x => s "<?" ++ x ++ ['>']
  | .decl x => s "<!" ++ x ++ ['>']
  | .mdecl _ => []

end FeedVerif.San
