import FeedVerif.Model.Options
/-! Driver glue for the options model. -/
namespace FeedVerif.Options

def decArg : String → Option (Option Bool)
  | "N" => some none | "T" => some (some true) | "F" => some (some false) | _ => none
def decFlag : String → Option Bool
  | "1" => some true | "0" => some false | _ => none
def encB (b : Bool) : String := if b then "1" else "0"

/-- `eff <as> <ar> <ao> <fs> <fr> <fo>` → effective "s r o";
`post <s> <r> <htmlish> <inRel> <inDanger>` → which transformers run, in order -/
def driverStep (ws : List String) : String :=
  match ws with
  | ["eff", a1, a2, a3, f1, f2, f3] =>
    match decArg a1, decArg a2, decArg a3, decFlag f1, decFlag f2, decFlag f3 with
    | some a1, some a2, some a3, some f1, some f2, some f3 =>
      let e := resolveOpts ⟨a1, a2, a3⟩ ⟨f1, f2, f3⟩
      encB e.sanitize ++ " " ++ encB e.resolve ++ " " ++ encB e.optimistic
    | _, _, _, _, _, _ => "bad-op"
  | ["post", s, r, h, ir, id] =>
    match decFlag s, decFlag r, decFlag h, decFlag ir, decFlag id with
    | some s, some r, some h, some ir, some id =>
      let o : Ops (List String) := { resolveMarkup := fun l => l ++ ["resolve"], sanitizeMarkup := fun l => l ++ ["sanitize"] }
      " ".intercalate ("start" :: postMarkup o ⟨s, r, true⟩ h ir id [])
    | _, _, _, _, _ => "bad-op"
  | _ => "bad-op"

end FeedVerif.Options
