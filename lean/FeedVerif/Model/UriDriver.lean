import FeedVerif.Model.Uri
import FeedVerif.Model.Proto
/-! Driver glue for M-uri. -/
namespace FeedVerif.Uri
open FeedVerif.Proto

def encO : Option Str → String
  | none => "none"
  | some s => "some " ++ encChars s

/--
`pyscheme u` · `whatwg u` · `pyws c` ·
`safe <allow:0|1> <base> <rel|-> <joined> <raises:0|1>` (the real `_urljoin` result is the join oracle)
-/
def driverStep (ws : List String) : String :=
  match ws with
  | ["pyscheme", u] => match decChars u with | some u => encO (pyScheme u) | none => "bad-op"
  | ["whatwg", u] => match decChars u with | some u => encO (whatwgScheme u) | none => "bad-op"
  | ["pyws", c] => match parseHex c with
    | some n => if pyWs (Char.ofNat n) then "1" else "0"
    | none => "bad-op"
  | ["safe", al, b, r, j, rs] =>
    match decChars b, (if r == "-" then some none else (decChars r).map some), decChars j with
    | some b, some r, some j =>
      let allow := if al == "1" then allowList else []
      encChars (makeSafe allow (fun _ _ => j) (fun _ => rs == "1") b r)
    | _, _, _ => "bad-op"
  | _ => "bad-op"

end FeedVerif.Uri
