import FeedVerif.Model.Doctype
import FeedVerif.Model.Proto
namespace FeedVerif.Doctype
open FeedVerif.Proto

/-- `replace <data>` → `<version|-> <data'> <k>=<v> …` (bytes as Latin-1 code points) -/
def driverStep (ws : List String) : String :=
  match ws with
  | ["replace", d] =>
    match decChars d with
    | some d =>
      let r := replaceDoctype d
      let ents := r.entities.map fun (k, v) => encChars k ++ "=" ++ encChars v
      " ".intercalate ([encOpt r.version, encChars r.data] ++ ents)
    | none => "bad-op"
  | ["safe", e] =>
    match decChars e with
    | some e => (match safeMatch e with | some (k, v, _) => encChars k ++ "=" ++ encChars v | none => "none")
    | none => "bad-op"
  | _ => "bad-op"

end FeedVerif.Doctype
