/-
M-prefix — model of the boundary search of `convert_file_prefix_to_utf8` (encodings.py:452-520): after the sized read and
`read_to_after_ascii_byte`, up to four attempts each read one more byte and run `convert_to_utf8` on the prefix so far; the first
non-bozo attempt wins; if all four are bozo the "best" candidate is chosen and the file is sought back to ITS offset.
`convert_to_utf8` is a parameter (`conv`): what matters here is which bytes go into the prefix and where the file is left.
-/
namespace FeedVerif.Prefix

abbrev Bytes := List Nat

/-- what the loop needs to know about one `convert_to_utf8` answer -/
structure R where
  out : Bytes          -- the converted prefix
  bozo : Bool
  excScore : Nat       -- 20 NonXMLContentType, 10 CharacterEncodingOverride, 0 otherwise
  utf : Bool           -- `result["encoding"].startswith("utf-")`
deriving DecidableEq, Repr

/-- the sort key of a candidate: `(exc_score, utf)` compared lexicographically -/
def keyLe (a b : R) : Bool := a.excScore < b.excScore || (a.excScore == b.excScore && (!a.utf || b.utf))

/-- `candidates.sort(key=key); candidates[-1]` — a stable ascending sort, then the last element: the LATEST candidate among those with
the greatest key -/
def pickBest : List (Nat × R) → Option (Nat × R)
  | [] => none
  | c :: rest =>
    match pickBest rest with
    | none => some c
    | some b => if keyLe c.2 b.2 then some b else some c

/-- the `for attempt in range(4)` loop: `attempt` counts from 0, `left` attempts remain, the file is at `pos` (the prefix so far is
`content[start:pos]`), `last` is the previous attempt's answer -/
def retry (conv : Bytes → R) (content : Bytes) (start : Nat) : Nat → Nat → Nat → List (Nat × R) → Option (Nat × R) → Option (Nat × R)
  | _, 0, _, cands, _ => pickBest cands                     -- the `else:` of the loop: all attempts were bozo
  | attempt, left + 1, pos, cands, last =>
    if pos ≥ content.length && attempt != 0 then last      -- `if not byte and attempt != 0: break`
    else
      let pos' := if pos < content.length then pos + 1 else pos
      let r := conv ((content.drop start).take (pos' - start))
      if !r.bozo then some (pos', r)                        -- an encoding was detected successfully, keep it
      else retry conv content start (attempt + 1) left pos' (cands ++ [(pos', r)]) (some (pos', r))

/-- `convert_file_prefix_to_utf8` from the point where the loop starts: final file offset and the chosen answer -/
def boundarySearch (conv : Bytes → R) (content : Bytes) (start pos : Nat) : Option (Nat × R) :=
  retry conv content start 0 4 pos [] none

end FeedVerif.Prefix
