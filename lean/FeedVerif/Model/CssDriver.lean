import FeedVerif.Model.Css
import FeedVerif.Model.Proto
namespace FeedVerif.Css
open FeedVerif.Proto

/-- `style <svgOK:0|1> <hex>` → sanitized style, or `unmodelled` for non-ASCII input;
`valid <hex>` → R5 verdict -/
def driverStep (ws : List String) : String :=
  match ws with
  | ["style", svg, s] =>
    match decChars s with
    | some s => if s.any (fun c => c.toNat > 127) then "unmodelled" else encChars (sanitizeStyle shipped (svg == "1") s)
    | none => "bad-op"
  | ["valid", s] =>
    match decChars s with
    | some s => if s.any (fun c => c.toNat > 127) then "unmodelled" else (if validCssValue s then "1" else "0")
    | none => "bad-op"
  | _ => "bad-op"

end FeedVerif.Css
