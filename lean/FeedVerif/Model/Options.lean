/-
M-api (options part) — per-call option resolution (api.py:251-259), the flags copied onto the
parser (api.py:306-308, 337-339) and the conditional resolve / sanitize steps of `pop`
(mixin.py:568-587).  The markup transformers themselves are parameters.
-/
namespace FeedVerif.Options

/-- `x if x is not None else bool(flag)`; `flag` is the truth value of the module-level flag
at call time -/
def eff (arg : Option Bool) (flag : Bool) : Bool :=
  match arg with
  | some b => b
  | none => flag

structure Flags where
  sanitize : Bool
  resolve : Bool
  optimistic : Bool
deriving DecidableEq, Repr

structure Args where
  sanitize : Option Bool
  resolve : Option Bool
  optimistic : Option Bool
deriving DecidableEq, Repr

structure Eff where
  sanitize : Bool
  resolve : Bool
  optimistic : Bool
deriving DecidableEq, Repr

def resolveOpts (a : Args) (f : Flags) : Eff :=
  { sanitize := eff a.sanitize f.sanitize, resolve := eff a.resolve f.resolve,
    optimistic := eff a.optimistic f.optimistic }

/-- the two markup transformers, parameters of the model -/
structure Ops (σ : Type) where
  resolveMarkup : σ → σ      -- urls.resolve_relative_uris(output, baseuri, ...)
  sanitizeMarkup : σ → σ     -- sanitizer.sanitize_html(output, ...)

/-- mixin.py:568-587: resolve step, then sanitize step, each behind its own guard -/
def postMarkup (o : Ops σ) (e : Eff) (isHtmlish inRelSet inDangerSet : Bool) (out : σ) : σ :=
  let out1 := if isHtmlish && e.resolve && inRelSet then o.resolveMarkup out else out
  if isHtmlish && e.sanitize && inDangerSet then o.sanitizeMarkup out1 else out1

/-- mixin.py:539-543: element-level URIs (`can_be_relative_uri`) are resolved whatever the
options are -/
def elementUri (join : σ → σ) (canBeRel nonEmpty : Bool) (out : σ) : σ :=
  if canBeRel && nonEmpty then join out else out

/-- a process history: the user may assign the module flags between calls -/
inductive Action
  | setFlags (f : Flags)
  | call (a : Args)
deriving Repr

/-- effective options seen by each `parse()` call of a history (parse never writes the flags) -/
def runSeq : Flags → List Action → List Eff
  | _, [] => []
  | _, .setFlags f' :: rest => runSeq f' rest
  | f, .call a :: rest => resolveOpts a f :: runSeq f rest

/-- the flags in force after a history -/
def flagsAfter : Flags → List Action → Flags
  | f, [] => f
  | _, .setFlags f' :: rest => flagsAfter f' rest
  | f, .call _ :: rest => flagsAfter f rest

end FeedVerif.Options
