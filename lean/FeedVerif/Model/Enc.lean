/-
M-enc — model of `convert_to_utf8` (encodings.py:75-334): BOM / '<?xm' signature sniffing, the
RFC 3023 decision table, ordered trial decoding, error selection and the XML-declaration rewrite.
Codecs are a parameter (`decodes : String → Bool`: does `data.decode(name)` succeed AND give text that
UTF-8 can encode — a few codecs decode to lone surrogates, which the code treats as a failed trial since fix: ffd5db4);
chardet is modelled as "not installed" (true in this sandbox; recorded in the trusted base).
-/
namespace FeedVerif.Enc

/-- sniffing on the first four bytes (encodings.py:143-178): (bom_encoding, bytes stripped) -/
def sniff (d : List Nat) : String × Nat :=
  match d with
  | 0x00 :: 0x00 :: 0xFE :: 0xFF :: _ => ("utf-32be", 4)
  | 0xFF :: 0xFE :: 0x00 :: 0x00 :: _ => ("utf-32le", 4)
  | _ =>
    let zero34 := match d with | _ :: _ :: 0x00 :: 0x00 :: _ => true | _ => false
    match d with
    | 0xFE :: 0xFF :: _ => if !zero34 then ("utf-16be", 2) else sniffRest d
    | 0xFF :: 0xFE :: _ => if !zero34 then ("utf-16le", 2) else sniffRest d
    | _ => sniffRest d
where
  sniffRest (d : List Nat) : String × Nat :=
    match d with
    | 0xEF :: 0xBB :: 0xBF :: _ => ("utf-8", 3)
    | 0x4C :: 0x6F :: 0xA7 :: 0x94 :: _ => ("cp037", 0)
    | 0x00 :: 0x3C :: 0x00 :: 0x3F :: _ => ("utf-16be", 0)
    | 0x3C :: 0x00 :: 0x3F :: 0x00 :: _ => ("utf-16le", 0)
    | 0x00 :: 0x00 :: 0x00 :: 0x3C :: _ => ("utf-32be", 0)
    | 0x3C :: 0x00 :: 0x00 :: 0x00 :: _ => ("utf-32le", 0)
    | _ => ("", 0)

def genericNames : List String :=
  ["u16", "utf-16", "utf16", "utf_16", "u32", "utf-32", "utf32", "utf_32", "iso-10646-ucs-2",
   "iso-10646-ucs-4", "csucs4", "csunicode", "ucs-2", "ucs-4"]

structure Inputs where
  bom : String            -- bom_encoding
  xmlDecl : String        -- encoding of the XML declaration on the utf-8 view, lower-cased; "" if none
  hasHeaders : Bool       -- bool(http_headers)
  hasCT : Bool            -- "content-type" in http_headers
  ctype : String          -- MIME type from parse_content_type
  httpEnc : String        -- charset parameter
  looksJson : Bool        -- data and data.lstrip().startswith(b"{")
deriving Repr

inductive Err | none | nonXml | override | unknown
deriving DecidableEq, Repr

structure Outcome where
  encoding : String       -- result["encoding"]
  error : Err
  ctype : String          -- result["content-type"]
  json : Bool
deriving DecidableEq, Repr

def normXml (i : Inputs) : String :=
  if i.bom ≠ "" && genericNames.contains i.xmlDecl then i.bom else i.xmlDecl

def pyOr (a b : String) : String := if a ≠ "" then a else b

def startsWith (p s : String) : Bool := s.toList.take p.length == p.toList
def endsWith (p s : String) : Bool := (s.toList.drop (s.length - p.length)) == p.toList && p.length ≤ s.length

inductive MediaClass | appXml | textXml | json | textOther | noCT | other
deriving DecidableEq, Repr

def classify (i : Inputs) : MediaClass :=
  let t := i.ctype
  if ["application/xml", "application/xml-dtd", "application/xml-external-parsed-entity"].contains t ||
      (startsWith "application/" t && endsWith "+xml" t) then .appXml
  else if ["text/xml", "text/xml-external-parsed-entity"].contains t ||
      (startsWith "text/" t && endsWith "+xml" t) then .textXml
  else if ["application/feed+json", "application/json"].contains t || (t == "" && i.looksJson) then .json
  else if startsWith "text/" t then .textOther
  else if i.hasHeaders && !i.hasCT then .noCT
  else .other

def gbUp (e : String) : String := if e.toLower == "gb2312" then "gb18030" else e

/-- the RFC 3023 choice (before trial decoding), after the gb2312 upgrade -/
def chosen (i : Inputs) : String :=
  let xml := normXml i
  gbUp (match classify i with
    | .appXml => pyOr i.httpEnc (pyOr xml "utf-8")
    | .textXml => pyOr i.httpEnc "us-ascii"
    | .json => pyOr i.httpEnc "utf-8"
    | .textOther => pyOr i.httpEnc "us-ascii"
    | .noCT => pyOr xml "iso-8859-1"
    | .other => pyOr xml (pyOr i.bom "utf-8"))

def acceptable (i : Inputs) : Bool :=
  match classify i with | .appXml | .textXml | .json => true | _ => false

/-- candidate encodings in trial order (chardet absent) -/
def candidates (i : Inputs) : List String :=
  [chosen i, gbUp (normXml i), i.bom, "utf-8", "windows-1252", "iso-8859-2"]

/-- first candidate that is non-empty, not tried before, and decodes -/
def trial (decodes : String → Bool) : List String → List String → Option String
  | [], _ => none
  | c :: rest, tried =>
    if c == "" || tried.contains c then trial decodes rest tried
    else if decodes c then some c else trial decodes rest (c :: tried)

def decide (i : Inputs) (decodes : String → Bool) : Outcome :=
  let ch := chosen i
  let cls := classify i
  let ctype := if cls == .json then "application/feed+json" else i.ctype
  let err0 : Err := if i.hasHeaders && !acceptable i then .nonXml else .none
  match trial decodes (candidates i) [] with
  | none => { encoding := "", error := .unknown, ctype := ctype, json := cls == .json }
  | some used =>
    if used != ch then { encoding := used, error := .override, ctype := ctype, json := cls == .json }
    else { encoding := ch, error := err0, ctype := ctype, json := cls == .json }

/-! ### declaration rewrite (encodings.py:304-311) on the decoded text -/

abbrev Str := List Char
def newDecl : Str := "<?xml version='1.0' encoding='utf-8'?>".toList

/-- `RE_XML_DECLARATION = ^<\?xml[^>]*?>` : `<?xml`, then up to and including the first `>` -/
def matchDecl (t : Str) : Option Str :=
  match t with
  | '<' :: '?' :: 'x' :: 'm' :: 'l' :: rest =>
    match rest.dropWhile (· != '>') with
    | _ :: after => some after
    | [] => none
  | _ => none

def rewriteDecl (json : Bool) (t : Str) : Str :=
  if json then t else
  match matchDecl t with
  | some after => newDecl ++ after
  | none => newDecl ++ '\n' :: t

/-! ### parse_content_type (encodings.py:75-96) -/

def ws (c : Char) : Bool := (9 ≤ c.toNat && c.toNat ≤ 13) || (28 ≤ c.toNat && c.toNat ≤ 32)
def stripWs (s : Str) : Str := ((s.dropWhile ws).reverse.dropWhile ws).reverse
def stripQ (s : Str) : Str :=
  let q := fun (c : Char) => c == '"' || c == '\''
  ((s.dropWhile q).reverse.dropWhile q).reverse

def splitOnAux (sep : Char) : Str → Str → List Str
  | [], acc => [acc.reverse]
  | c :: rest, acc => if c == sep then acc.reverse :: splitOnAux sep rest [] else splitOnAux sep rest (c :: acc)
def splitOn (sep : Char) (s : Str) : List Str := splitOnAux sep s []

def parseContentType (line : Str) : Str × Str :=
  match splitOn ';' line with
  | [] => ([], [])
  | c0 :: rest =>
    let charset := rest.foldl (fun acc chunk =>
      let key := chunk.takeWhile (· != '=')
      let value := (chunk.dropWhile (· != '=')).drop 1
      if (stripWs key).map Char.toLower == "charset".toList then stripQ (stripWs value) else acc) []
    (stripWs c0, charset)

end FeedVerif.Enc
