/-
M-date — executable models of the date handlers (feedparser/datetimes/*.py) on ASCII input:
`_parse_date_rfc822`, `_parse_date_w3dtf`, `_parse_date_asctime`, the handler dispatcher
`_parse_date`, and `(datetime(...) - timedelta(...)).utctimetuple()` on top of the civil
arithmetic of Model/Civil.lean.  Python's `int()`, `float()` (decimal literals), `str.split`,
`str.lower` are modelled on ASCII; the driver answers `unmodelled` for non-ASCII input.
-/
import FeedVerif.Model.Civil
import FeedVerif.Gen.Dates

namespace FeedVerif.Date
open FeedVerif.Civil

abbrev Str := List Char

/-- the 9-tuple returned by `utctimetuple()` (tm_isdst is always 0) -/
structure Tuple9 where
  y : Nat
  m : Nat
  d : Nat
  hh : Nat
  mm : Nat
  ss : Nat
  wday : Nat
  yday : Nat
deriving DecidableEq, Repr

/-! ### string primitives -/

def ws (c : Char) : Bool := (9 ≤ c.toNat && c.toNat ≤ 13) || (28 ≤ c.toNat && c.toNat ≤ 32)
def isDigit (c : Char) : Bool := 48 ≤ c.toNat && c.toNat ≤ 57
def lowerS (s : Str) : Str := s.map Char.toLower
def rstripWs (s : Str) : Str := (s.reverse.dropWhile ws).reverse
def stripWs (s : Str) : Str := rstripWs (s.dropWhile ws)

/-- `str.split()` (whitespace) -/
def splitWsAux : Str → Str → List Str
  | [], acc => if acc.isEmpty then [] else [acc.reverse]
  | c :: rest, acc =>
    if ws c then (if acc.isEmpty then splitWsAux rest [] else acc.reverse :: splitWsAux rest [])
    else splitWsAux rest (c :: acc)
def splitWs (s : Str) : List Str := splitWsAux s []

/-- `str.split(sep)` for a one-character separator: keeps empty fields, never returns `[]` -/
def splitOnAux (sep : Char) : Str → Str → List Str
  | [], acc => [acc.reverse]
  | c :: rest, acc => if c == sep then acc.reverse :: splitOnAux sep rest [] else splitOnAux sep rest (c :: acc)
def splitOn (sep : Char) (s : Str) : List Str := splitOnAux sep s []

/-- `str.split(sep, maxsplit)` -/
def splitOnMaxAux (sep : Char) : Nat → Str → Str → List Str
  | _, [], acc => [acc.reverse]
  | 0, rest, acc => [acc.reverse ++ rest]
  | n + 1, c :: rest, acc =>
    if c == sep then acc.reverse :: splitOnMaxAux sep n rest [] else splitOnMaxAux sep (n + 1) rest (c :: acc)
def splitOnMax (sep : Char) (n : Nat) (s : Str) : List Str := splitOnMaxAux sep n s []

def joinWith (sep : Str) : List Str → Str
  | [] => []
  | [x] => x
  | x :: xs => x ++ sep ++ joinWith sep xs

def startsWith (p s : Str) : Bool := s.take p.length == p
def endsWithC (c : Char) (s : Str) : Bool := s.getLast? == some c

/-- digits with single underscores between them (PEP 515), value in base 10 -/
def digitsVal : Str → Option Nat
  | [] => none
  | c :: rest =>
    if !isDigit c then none else
    let rec go (acc : Nat) : Str → Option Nat
      | [] => some acc
      | '_' :: d :: r => if isDigit d then go (acc * 10 + (d.toNat - 48)) r else none
      | d :: r => if isDigit d then go (acc * 10 + (d.toNat - 48)) r else none
    go (c.toNat - 48) rest

/-- Python `int(s)` for a str: surrounding whitespace stripped, optional sign; `none` = ValueError -/
def pyInt (s : Str) : Option Int :=
  match stripWs s with
  | '-' :: r => (digitsVal r).map fun n => -(n : Int)
  | '+' :: r => (digitsVal r).map fun n => (n : Int)
  | r => (digitsVal r).map fun n => (n : Int)

/-- split a digit run (underscores allowed inside) off the front -/
def spanDigits (s : Str) : Str × Str := (s.takeWhile (fun c => isDigit c || c == '_'), s.dropWhile (fun c => isDigit c || c == '_'))

/-- Python `int(float(s))` for decimal literals `[sign] digits [. digits] [e [sign] digits]`
(at least one mantissa digit); `none` = ValueError / OverflowError / nan / inf.  Exact decimal
arithmetic: inputs are assumed to carry ≤ 15 significant digits (declared domain). -/
def pyFloatInt (s : Str) : Option Int :=
  let s := stripWs s
  let (neg, s) := match s with | '-' :: r => (true, r) | '+' :: r => (false, r) | r => (false, r)
  let (ip, s1) := spanDigits s
  let (fp, s2) := match s1 with
    | '.' :: r => spanDigits r
    | r => ([], r)
  if ip.isEmpty && fp.isEmpty then none else
  let ipv := if ip.isEmpty then some 0 else digitsVal ip
  let fpd := fp.filter isDigit
  let fpOK := fp.isEmpty || (digitsVal fp).isSome
  let expo : Option Int := match s2 with
    | [] => some 0
    | e :: r => if e == 'e' || e == 'E' then
        (match r with
          | '-' :: d => (digitsVal d).map fun n => -(n : Int)
          | '+' :: d => (digitsVal d).map fun n => (n : Int)
          | d => (digitsVal d).map fun n => (n : Int))
      else none
  match ipv, fpOK, expo with
  | some iv, true, some e =>
    let mant : Nat := fpd.foldl (fun a c => a * 10 + (c.toNat - 48)) iv
    let sh : Int := e - fpd.length
    let mag : Option Nat :=
      if mant == 0 then some 0
      else if sh ≥ 0 then (if sh > 30 then none else some (mant * 10 ^ sh.toNat))
      else (if -sh > 400 then some 0 else some (mant / 10 ^ (-sh).toNat))
    mag.map fun m => if neg then -(m : Int) else (m : Int)
  | _, _, _ => none

def lookupInt (tbl : List (String × Int)) (k : Str) : Option Int :=
  (tbl.find? (fun p => p.1.toList == k)).map (·.2)
def lookupNat (tbl : List (String × Nat)) (k : Str) : Option Nat :=
  (tbl.find? (fun p => p.1.toList == k)).map (·.2)

/-! ### datetime arithmetic -/

def maxOrd : Nat := 3652059       -- date(9999, 12, 31).toordinal()

def validDT (y m d hh mm ss : Int) : Bool :=
  1 ≤ y && y ≤ 9999 && 1 ≤ m && m ≤ 12 && 1 ≤ d && d ≤ (dim (isLeap y.toNat) m.toNat : Nat) &&
  0 ≤ hh && hh ≤ 23 && 0 ≤ mm && mm ≤ 59 && 0 ≤ ss && ss ≤ 59

/-- `(datetime(y,m,d,hh,mm,ss) - timedelta(minutes=tzmin, hours=tzhour)).utctimetuple()`;
`none` = ValueError / OverflowError anywhere -/
def shift (y m d hh mm ss : Int) (tzhour tzmin : Int) : Option Tuple9 :=
  if !validDT y m d hh mm ss then none else
  let offSec : Int := tzhour * 3600 + tzmin * 60
  if offSec.natAbs > 86399999913600 then none else        -- timedelta range (|days| ≤ 999999999)
  let total : Int := (ymd2ord y.toNat m.toNat d.toNat : Nat) * 86400 + hh * 3600 + mm * 60 + ss - offSec
  let days : Int := total / 86400
  if days < 1 || days > (maxOrd : Nat) then none else
  let secs : Nat := (total % 86400).toNat
  let o := ord2ymd days.toNat
  some { y := o.1, m := o.2.1, d := o.2.2, hh := secs / 3600, mm := (secs % 3600) / 60, ss := secs % 60,
         wday := (days.toNat + 6) % 7, yday := days.toNat - dby o.1 }

/-! ### `_parse_date_rfc822` (rfc822.py:72-179) -/

def dayNames : List Str := Gen.Dates.rfc822DayNames.map String.toList

def afterLastComma (s : Str) : Str := (s.reverse.takeWhile (· != ',')).reverse

/-- the two-digit-year window (rfc822.py:117-121): keyed on how the year was WRITTEN (`len(parts[2]) <= 2`),
not on its value -/
def windowYear (written : Str) (year0 : Int) : Int :=
  if written.length ≤ 2 then year0 + (if year0 < 90 then 2000 else 1900) else year0

def parseRfc822 (date : Str) : Option Tuple9 :=
  let parts0 := splitWs (lowerS date)
  let parts1 := if parts0.length < 5 then parts0 ++ ["00:00:00".toList, "0000".toList] else parts0
  let parts2 := match parts1 with
    | p0 :: rest =>
      if dayNames.contains (p0.take 3) then
        (if p0.contains ',' && !endsWithC ',' p0 then afterLastComma p0 :: rest else rest)
      else parts1
    | [] => []
  match parts2 with
  | q0 :: q1 :: q2 :: q3 :: q4 :: _ =>
    let month0 := lookupNat Gen.Dates.rfc822Months (q1.take 3)
    let dm : Option (Int × Option Nat) :=
      match pyInt q0 with
      | some d => some (d, month0)
      | none =>
        match lookupNat Gen.Dates.rfc822Months (q0.take 3) with
        | some mo => if mo == 0 then none else (pyInt q1).map fun d => (d, some mo)
        | none => none
    match dm with
    | none => none
    | some (day, monthO) =>
      match monthO with
      | none => none
      | some month =>
        if month == 0 then none else
        match pyInt q2 with
        | none => none
        | some year0 =>
          let year := windowYear q2 year0
          let tp0 := splitOn ':' q3
          let tp := tp0 ++ List.replicate (3 - tp0.length) ['0']
          match tp with
          | [h, mi, s] =>
            match pyInt h, pyInt mi, pyInt s with
            | some hour, some minute, some second =>
              let z1 := if startsWith "etc/".toList q4 then q4.drop 4 else q4
              let z2 := if startsWith "gmt".toList z1 then
                  (let j := (splitOn ':' (z1.drop 3)).flatten; if j.isEmpty then "gmt".toList else j)
                else z1
              let tz : Option (Int × Int) :=
                match z2 with
                | c :: _ =>
                  if c == '-' || c == '+' then
                    let hm : Option (Int × Int) :=
                      if z2.contains ':' then
                        (match pyInt ((z2.drop 1).take 2), pyInt (z2.drop 4) with
                          | some a, some b => some (a, b) | _, _ => none)
                      else
                        (match pyInt ((z2.drop 1).take 2), pyInt (z2.drop 3) with
                          | some a, some b => some (a, b) | _, _ => none)
                    hm.map fun (a, b) => if c == '-' then (-a, -b) else (a, b)
                  else some ((lookupInt Gen.Dates.rfc822Zones z2).getD 0, 0)
                | [] => some ((lookupInt Gen.Dates.rfc822Zones z2).getD 0, 0)
              match tz with
              | none => none
              | some (th, tm) => shift year month day hour minute second th tm
            | _, _, _ => none
          | _ => none
  | _ => none

/-! ### `_parse_date_w3dtf` (w3dtf.py:61-128) -/

/-- `s.find(c) + 1` (0 when absent) -/
def findPlus1 (c : Char) (s : Str) : Nat :=
  let pre := s.takeWhile (· != c)
  if pre.length == s.length then 0 else pre.length + 1

def parseW3dtf (datestr : Str) : Option Tuple9 :=
  if (stripWs datestr).isEmpty then none else
  let parts0 := splitOn 't' (lowerS datestr)
  let parts1 : Option (List Str) :=
    match parts0 with
    | [p] =>
      let ps := splitWs p
      some (match ps with | [x] => [x, "00:00:00z".toList] | _ => ps)
    | [_, _] => some parts0
    | _ => none
  match parts1 with
  | none => none
  | some [] => none
  | some [_] => none            -- unreachable (kept total)
  | some (p0 :: p1 :: prest) =>
    let date0 := splitOnMax '-' 2 p0
    match date0 with
    | [] => none
    | d0 :: _ =>
      if d0.length != 4 then none else
      let date := date0 ++ List.replicate (3 - date0.length) ['1']
      match date with
      | [ys, ms, ds] =>
        match pyInt ys, pyInt ms, pyInt ds with
        | some year, some month, some day =>
          -- parts[1] ending in 'z'
          let (p1a, prest1) := if endsWithC 'z' p1 then (p1.dropLast, prest ++ ["z".toList]) else (p1, prest)
          let locp :=
            let a := findPlus1 '-' p1a
            if a != 0 then a else
            let b := findPlus1 '+' p1a
            if b != 0 then b else p1a.length + 1
          let loc := locp - 1
          let partsAll := [p0, p1a.take loc] ++ prest1 ++ [p1a.drop loc]
          let timeS := p1a.take loc
          let tzS := partsAll.getD 2 []
          let time0 := splitOnMax ':' 2 timeS
          let time := time0 ++ List.replicate (3 - time0.length) ['0']
          let tz : Option (Int × Int) :=
            match tzS with
            | c :: _ =>
              if c == '-' || c == '+' then
                (match pyInt ((tzS.drop 1).take 2), pyInt (tzS.drop 4) with
                  | some a, some b => some (if c == '-' then (-a, -b) else (a, b))
                  | _, _ => none)
              else some ((lookupInt Gen.Dates.w3dtfZones tzS).getD 0, 0)
            | [] => some ((lookupInt Gen.Dates.w3dtfZones tzS).getD 0, 0)
          match tz with
          | none => none
          | some (th, tm) =>
            match time with
            | [h, mi, s] =>
              match pyFloatInt h, pyFloatInt mi, pyFloatInt s with
              | some hour, some minute, some second => shift year month day hour minute second th tm
              | _, _, _ => none
            | _ => none
        | _, _, _ => none
      | _ => none

/-! ### `_parse_date_asctime` (asctime.py:46-80) -/

def parseAsctime (dt : Str) : Option Tuple9 :=
  let parts0 := splitWs dt
  let parts := if parts0.length == 5 then parts0.take 4 ++ ["+0000".toList] ++ parts0.drop 4 else parts0
  match parts with
  | [a, b, c, d, e, f] => parseRfc822 (joinWith [' '] [a, c, b, f, d, e])
  | _ => none

/-! ### dispatcher `_parse_date` (datetimes/__init__.py:48-63) -/

/-- what one registered handler does on one string -/
inductive HRes
  | raises                         -- any exception
  | falsy                          -- None, (), 0, "" …
  | unsized                        -- truthy object without len()
  | sized (len : Nat) (id : Nat)   -- truthy sized object (id identifies the value)
deriving DecidableEq, Repr

def accepted : HRes → Option Nat
  | .sized 9 id => some id
  | _ => none

/-- handlers are tried in list order (newest first); the first 9-sized truthy result wins -/
def dispatch (emptyInput : Bool) (results : List HRes) : Option Nat :=
  if emptyInput then none else results.findSome? accepted

/-- `registerDateHandler(f)` = `_date_handlers.insert(0, f)` -/
def register (hs : List α) (h : α) : List α := h :: hs

end FeedVerif.Date
