/-
M-css — model of `HTMLSanitizer.sanitize_style` (sanitizer.py:840-878) on ASCII input.

The five regular expressions are hand-translated:
  R1  url\s*\(\s*[^\s)]+?\s*\)\s*            (sub → " ")          deterministic scanner `stripUrls`
  R2  ^([:,;#%.\sa-zA-Z0-9!]|\w-\w|'[\s\w]+'|"[\s\w]+"|\([\d,\s]+\))*$   (match)  `gauntlet` (language membership)
  R3  \s*[-\w]+\s*:\s*[^:;]*;?               (sub → "", then strip) deterministic scanner `stripDecls`
  R4  ([-\w]+)\s*:\s*([^:;]*)                (findall)            deterministic scanner `findDecls`
  R5  valid_css_values                        (match)              `validCssValue`
For R1/R3/R4 backtracking never changes where a match ends (each quantified class is followed by
a character outside the class), so a left-to-right scanner is exact; for R2/R5 only the boolean
"matches the whole string" matters, which is language membership.
Python's `\w`, `\s`, `\d`, `str.split()`, `str.strip()`, `str.lower()` are modelled on ASCII only;
the driver answers `unmodelled` for non-ASCII input.
-/
import FeedVerif.Gen.Sanitizer

namespace FeedVerif.Css

abbrev Str := List Char

def ws (c : Char) : Bool := (9 ≤ c.toNat && c.toNat ≤ 13) || (28 ≤ c.toNat && c.toNat ≤ 32)
def digit (c : Char) : Bool := 48 ≤ c.toNat && c.toNat ≤ 57
def lower (c : Char) : Bool := 97 ≤ c.toNat && c.toNat ≤ 122
def upper (c : Char) : Bool := 65 ≤ c.toNat && c.toNat ≤ 90
def wordc (c : Char) : Bool := lower c || upper c || digit c || c.toNat == 95
def identc (c : Char) : Bool := wordc c || c.toNat == 45          -- [-\w]
/-- `[:,;#%.\sa-zA-Z0-9!]` -/
def single (c : Char) : Bool :=
  c.toNat == 58 || c.toNat == 44 || c.toNat == 59 || c.toNat == 35 || c.toNat == 37 || c.toNat == 46 ||
  ws c || lower c || upper c || digit c || c.toNat == 33
def quoteBody (c : Char) : Bool := ws c || wordc c               -- [\s\w]
def parenBody (c : Char) : Bool := digit c || c.toNat == 44 || ws c   -- [\d,\s]
def notColonSemi (c : Char) : Bool := !(c.toNat == 58 || c.toNat == 59)

/-- after an opening delimiter: one or more `body` chars, then `close`; returns the rest -/
def group (body : Char → Bool) (close : Nat) (s : Str) : Option Str :=
  match s.dropWhile body with
  | c :: rest => if c.toNat == close && !(s.takeWhile body).isEmpty then some rest else none
  | [] => none

/-- R2: membership in `(single | \w-\w | '…' | "…" | (…))*` -/
def gauntletF : Nat → Str → Bool
  | _, [] => true
  | 0, _ :: _ => false
  | n + 1, c :: rest =>
    (single c && gauntletF n rest) ||
    (wordc c && (match rest with
      | d :: e :: r => d.toNat == 45 && wordc e && gauntletF n r
      | _ => false)) ||
    (c.toNat == 39 && (match group quoteBody 39 rest with | some r => gauntletF n r | none => false)) ||
    (c.toNat == 34 && (match group quoteBody 34 rest with | some r => gauntletF n r | none => false)) ||
    (c.toNat == 40 && (match group parenBody 41 rest with | some r => gauntletF n r | none => false))

def gauntlet (s : Str) : Bool := gauntletF s.length s

/-- R1 at one position: `url\s*\(\s*[^\s)]+?\s*\)\s*`; returns the rest after the match -/
def matchUrl (s : Str) : Option Str :=
  match s with
  | 'u' :: 'r' :: 'l' :: r0 =>
    match r0.dropWhile ws with
    | '(' :: r1 =>
      let r2 := r1.dropWhile ws
      let arg := r2.takeWhile (fun c => !(ws c || c == ')'))
      if arg.isEmpty then none else
      match (r2.dropWhile (fun c => !(ws c || c == ')'))).dropWhile ws with
      | ')' :: r3 => some (r3.dropWhile ws)
      | _ => none
    | _ => none
  | _ => none

def stripUrlsF : Nat → Str → Str
  | _, [] => []
  | 0, s => s
  | n + 1, c :: rest =>
    match matchUrl (c :: rest) with
    | some r => ' ' :: stripUrlsF n r
    | none => c :: stripUrlsF n rest

def stripUrls (s : Str) : Str := stripUrlsF s.length s

/-- R3/R4 at one position: `\s*`? `[-\w]+ \s* : \s* [^:;]*`; returns (prop, value, rest) -/
def matchDecl (s : Str) : Option (Str × Str × Str) :=
  let prop := s.takeWhile identc
  if prop.isEmpty then none else
  match ((s.dropWhile identc).dropWhile ws) with
  | ':' :: r1 =>
    let r2 := r1.dropWhile ws
    some (prop, r2.takeWhile notColonSemi, r2.dropWhile notColonSemi)
  | _ => none

/-- R3: remove every `\s*[-\w]+\s*:\s*[^:;]*;?` -/
def stripDeclsF : Nat → Str → Str
  | _, [] => []
  | 0, s => s
  | n + 1, c :: rest =>
    match matchDecl ((c :: rest).dropWhile ws) with
    | some (_, _, r) =>
      match r with
      | ';' :: r' => stripDeclsF n r'
      | _ => stripDeclsF n r
    | none => c :: stripDeclsF n rest

def stripDecls (s : Str) : Str := stripDeclsF s.length s

/-- R4: all `([-\w]+)\s*:\s*([^:;]*)` -/
def findDeclsF : Nat → Str → List (Str × Str)
  | _, [] => []
  | 0, _ => []
  | n + 1, c :: rest =>
    match matchDecl (c :: rest) with
    | some (p, v, r) => (p, v) :: findDeclsF n r
    | none => findDeclsF n rest

def findDecls (s : Str) : List (Str × Str) := findDeclsF s.length s

def toLowerS (s : Str) : Str := s.map Char.toLower
def rstripWs (s : Str) : Str := (s.reverse.dropWhile ws).reverse
def stripWs (s : Str) : Str := rstripWs (s.dropWhile ws)

/-- `str.split()` -/
def splitWsAux : Str → Str → List Str
  | [], acc => if acc.isEmpty then [] else [acc.reverse]
  | c :: rest, acc =>
    if ws c then (if acc.isEmpty then splitWsAux rest [] else acc.reverse :: splitWsAux rest [])
    else splitWsAux rest (c :: acc)
def splitWs (s : Str) : List Str := splitWsAux s []

def hexLower (c : Char) : Bool := digit c || (97 ≤ c.toNat && c.toNat ≤ 102)

def dropUpTo (p : Char → Bool) (k : Nat) (s : Str) : List Str :=
  -- all ways of removing 0..k leading chars satisfying p
  (List.range (k + 1)).filterMap fun i =>
    if (s.take i).all p && (s.take i).length == i then some (s.drop i) else none

def units : List Str := ["cm", "em", "ex", "in", "mm", "pc", "pt", "px", "%", ",", ")"].map String.toList

/-- third alternative of R5: `\d{0,2}\.?\d{0,2}(cm|em|ex|in|mm|pc|pt|px|%|,|\))?` (whole string) -/
def sizeValue (s : Str) : Bool :=
  (dropUpTo digit 2 s).any fun s1 =>
    let opts1 := match s1 with | '.' :: r => [s1, r] | _ => [s1]
    opts1.any fun s2 =>
      (dropUpTo digit 2 s2).any fun s3 => s3.isEmpty || units.contains s3

def optChar (c : Char) (s : Str) : Str := match s with | d :: r => if d == c then r else s | [] => s

/-- second alternative: `rgb\(\d+%?,\d*%?,?\d*%?\)?` (whole string; greedy = exact here) -/
def rgbValue (s : Str) : Bool :=
  match s with
  | 'r' :: 'g' :: 'b' :: '(' :: r0 =>
    let d1 := r0.takeWhile digit
    if d1.isEmpty then false else
    match optChar '%' (r0.dropWhile digit) with
    | ',' :: r1 =>
      let r2 := optChar '%' (r1.dropWhile digit)
      let r3 := optChar ',' r2
      let r4 := optChar '%' (r3.dropWhile digit)
      (optChar ')' r4).isEmpty
    | _ => false
  | _ => false

/-- R5 `valid_css_values` -/
def validCssValue (s : Str) : Bool :=
  (match s with | '#' :: r => !r.isEmpty && r.all hexLower | _ => false) || rgbValue s || sizeValue s

structure Tables where
  cssProps : List Str
  cssKeywords : List Str
  svgProps : List Str

def shorthandFamilies : List Str := ["background", "border", "margin", "padding"].map String.toList

def firstDashPart (p : Str) : Str := p.takeWhile (fun c => c != '-')

/-- which declarations survive (sanitizer.py:861-876) -/
def keepDecl (t : Tables) (svgOK : Bool) (pv : Str × Str) : Bool :=
  let (prop, value) := pv
  if value.isEmpty then false
  else if t.cssProps.contains (toLowerS prop) then true
  else if shorthandFamilies.contains (toLowerS (firstDashPart prop)) then
    (splitWs value).all fun kw => t.cssKeywords.contains kw || validCssValue kw
  else svgOK && t.svgProps.contains (toLowerS prop)

def renderDecl (pv : Str × Str) : Str := pv.1 ++ ": ".toList ++ pv.2 ++ [';']

def joinSp : List Str → Str
  | [] => []
  | [x] => x
  | x :: xs => x ++ ' ' :: joinSp xs

/-- `sanitize_style` -/
def sanitizeStyle (t : Tables) (svgOK : Bool) (style : Str) : Str :=
  let s := stripUrls style
  if !gauntlet s then []
  else if !(stripWs (stripDecls s)).isEmpty then []
  else joinSp (((findDecls s).filter (keepDecl t svgOK)).map renderDecl)

def shipped : Tables :=
  { cssProps := Gen.Sanitizer.cssProperties.map String.toList,
    cssKeywords := Gen.Sanitizer.cssKeywords.map String.toList,
    svgProps := Gen.Sanitizer.svgProperties.map String.toList }

end FeedVerif.Css
