import FeedVerif.Model.San
import FeedVerif.Gen.Urls
import FeedVerif.Model.Proto
/-! Driver glue for M-san: one sgmllib callback per line; the real results of `sanitize_style` and of the
href branch for every attribute value of a start tag come along as oracle values. -/
namespace FeedVerif.San
open FeedVerif.Proto

structure DSt where
  isHtml : Bool := true
  st : St := {}

def encSt (s : St) : String := s!"{s.unacceptable} {s.mathmlOK} {s.svgOK}"

/-- attr field: `k|v|style0|style1|safeHref` -/
def decAttr (f : String) : Option (Attr × (Str × Str × Str × Str)) :=
  match f.splitOn "|" with
  | [k, v, s0, s1, h] =>
    match decChars k, decChars v, decChars s0, decChars s1, decChars h with
    | some k, some v, some s0, some s1, some h => some ((k, v), (v, s0, s1, h))
    | _, _, _, _, _ => none
  | _ => none

def out (d : DSt) (r : St × Option Piece) : DSt × String :=
  ({ d with st := r.1 }, (match r.2 with
    | some p => let x := serializePiece shipped p; if x.isEmpty then "-" else "P " ++ encChars x   -- a void element's end tag appends nothing
    | none => "-") ++ " " ++ encSt r.1)

def driverStep (d : DSt) (ws : List String) : DSt × String :=
  match ws with
  | ["reset", h] => ({ isHtml := h == "1", st := {} }, "ok")
  | "stag" :: tag :: attrs =>
    let real := attrs.filter (fun f => !f.startsWith "ORACLE:")
    let extra := (attrs.filter (fun f => f.startsWith "ORACLE:")).map (fun f => (f.drop 7).toString)
    match decChars tag, real.mapM decAttr, extra.mapM decAttr with
    | some tag, some as, some ex =>
      let tbl := (as ++ ex).map (·.2)
      let look (v : Str) : Option (Str × Str × Str × Str) := tbl.find? (·.1 == v)
      let o : Ops := {
        safeHref := fun v => match look v with | some r => r.2.2.2 | none => s "<oracle-miss>",
        style := fun svg v => match look v with | some r => (if svg then r.2.2.1 else r.2.1) | none => s "<oracle-miss>" }
      out d (step shipped o d.isHtml d.st (.stag tag (as.map (·.1))))
    | _, _, _ => (d, "bad-op")
  | ["etag", tag] => match decChars tag with
    | some tag => out d (step shipped ops0' d.isHtml d.st (.etag tag))
    | none => (d, "bad-op")
  | [k, x] =>
    match decChars x with
    | some x =>
      let tok : Option Tok := if k == "text" then some (.text x) else if k == "charref" then some (.charref x)
        else if k == "entref" then some (.entref x) else if k == "comment" then some (.comment x)
        else if k == "pi" then some (.pi x) else if k == "decl" then some (.decl x) else if k == "mdecl" then some (.mdecl x) else none
      (match tok with
        | some tok => out d (step shipped ops0' d.isHtml d.st tok)
        | none => (d, "bad-op"))
    | none => (d, "bad-op")
  | _ => (d, "bad-op")
where
  ops0' : Ops := { safeHref := fun v => v, style := fun _ _ => [] }

end FeedVerif.San

namespace FeedVerif.San
open FeedVerif.Proto

def relTableShipped : List (Str × Str) := Gen.Urls.relativeUris.map fun p => (p.1.toList, p.2.toList)

/-- resolver attr field: `k|v|resolved` -/
def decRAttr (f : String) : Option (Attr × Str) :=
  match f.splitOn "|" with
  | [k, v, r] => match decChars k, decChars v, decChars r with
    | some k, some v, some r => some ((k, v), r)
    | _, _, _ => none
  | _ => none

/-- `res stag <tag> <k|v|resolved>…` · `res etag|text|charref|entref|comment|pi|decl <x>` → serialized output of the callback -/
def resDriverStep (ws : List String) : String :=
  match ws with
  | "stag" :: tag :: attrs =>
    match decChars tag, attrs.mapM decRAttr with
    | some tag, some as =>
      let resolve (v : Str) : Str := match as.find? (·.1.2 == v) with | some r => r.2 | none => s "<oracle-miss>"
      let x := resolverStep shipped relTableShipped resolve (.stag tag (as.map (·.1)))
      if x.isEmpty then "-" else "P " ++ encChars x
    | _, _ => "bad-op"
  | [k, x] =>
    match decChars x with
    | some x =>
      let tok : Option Tok := if k == "text" then some (.text x) else if k == "charref" then some (.charref x)
        else if k == "entref" then some (.entref x) else if k == "comment" then some (.comment x)
        else if k == "pi" then some (.pi x) else if k == "decl" then some (.decl x) else if k == "mdecl" then some (.mdecl x) else if k == "etag" then some (.etag x) else none
      (match tok with
        | some tok => let y := resolverStep shipped relTableShipped (fun v => v) tok; if y.isEmpty then "-" else "P " ++ encChars y
        | none => "bad-op")
    | none => "bad-op"
  | _ => "bad-op"

end FeedVerif.San
