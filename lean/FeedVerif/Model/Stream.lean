/-
M-stream — model of the stream plumbing between the caller's source and the parsers:
`PrefixFileWrapper.read` (encodings.py:616-650) over an underlying file that may return SHORT reads,
`ResetFileWrapper` / `StreamFactory.reset` (encodings.py:545-614), the empty-content probe of
`parse` (api.py:216-222) and the normalisation of delivery forms in `_open_resource` (api.py:74-141).
Files are `(rest, caps)`: the content still to be read plus an adversarial schedule bounding each
sized read (a sized read returns at least one byte unless at EOF; `read(0) = b""`).
-/
namespace FeedVerif.Stream

abbrev Bytes := List Nat

structure File where
  rest : Bytes
  caps : List Nat
deriving Repr

/-- `file.read(size)` for size ≥ 0 -/
def File.readN (f : File) (size : Nat) : Bytes × File :=
  if size = 0 then ([], f) else
  let cap := match f.caps with | [] => size | c :: _ => max 1 c
  let n := min size cap
  (f.rest.take n, { rest := f.rest.drop n, caps := f.caps.drop 1 })

/-- `file.read(-1)` / `file.read()`: everything that is left -/
def File.readAll (f : File) : Bytes × File := (f.rest, { f with rest := [] })

structure PW where
  «prefix» : Bytes
  file : File
  offset : Nat := 0
deriving Repr

/-- the `while True` loop for size ≥ 0; `fuel` bounds the iterations (`loopN_stable`: any fuel above
`size` gives the same result, so the bound is not a restriction) -/
def loopN : Nat → File → Nat → Bytes → Nat → Bytes × File × Nat
  | 0, f, _, buf, off => (buf, f, off)
  | fuel+1, f, size, buf, off =>
    let (chunk, f') := f.readN size
    if chunk.isEmpty then (buf, f', off)
    else
      let buf := buf ++ chunk
      let off := off + chunk.length
      if size ≤ 0 then (buf, f', off)          -- `if size <= 0: break`
      else loopN fuel f' (size - chunk.length) buf off

/-- `read(size)` for size ≥ 0 -/
def PW.readN (w : PW) (size : Nat) : Bytes × PW :=
  let (buf, size, off) :=
    if w.offset < w.prefix.length then
      let chunk := (w.prefix.drop w.offset).take size
      (chunk, size - chunk.length, w.offset + chunk.length)
    else ([], size, w.offset)
  let (buf, f, off) := loopN (size + 1) w.file size buf off
  (buf, { w with file := f, offset := off })

/-- `read(-1)`: `chunk = self.prefix` — the WHOLE prefix, whatever the offset (encodings.py:626-627) —
then one `file.read(-1)`; `if size <= 0: break` -/
def PW.readAll (w : PW) : Bytes × PW :=
  let (buf, off) := if w.offset < w.prefix.length then (w.prefix, w.offset + w.prefix.length) else ([], w.offset)
  let (chunk, f) := w.file.readAll
  (buf ++ chunk, { w with file := f, offset := off + chunk.length })

/-- what is still to be delivered: the unread part of the prefix, then the file -/
def PW.logical (w : PW) : Bytes := w.prefix.drop w.offset ++ w.file.rest

/-- a consumer issuing sized reads `sizes` one after the other; returns the chunks it got -/
def PW.readSeq (w : PW) : List Nat → List Bytes × PW
  | [] => ([], w)
  | n :: rest =>
    let (c, w') := w.readN n
    let (cs, w'') := w'.readSeq rest
    (c :: cs, w'')

/-! ### ResetFileWrapper / StreamFactory.reset: a seekable file is (content, pos) -/
structure Seekable where
  content : Bytes
  pos : Nat
deriving Repr, DecidableEq

def Seekable.read (s : Seekable) (n : Option Nat) : Bytes × Seekable :=
  let avail := s.content.drop s.pos
  match n with
  | none => (avail, { s with pos := s.pos + avail.length })
  | some k => (avail.take k, { s with pos := s.pos + (avail.take k).length })

def Seekable.seek (s : Seekable) (p : Nat) : Seekable := { s with pos := p }

/-- `ResetFileWrapper`: remembers the offset at construction -/
structure RFW where
  file : Seekable
  initial : Nat
deriving Repr

def RFW.mk' (f : Seekable) : RFW := ⟨f, f.pos⟩
def RFW.reset (r : RFW) : RFW := { r with file := r.file.seek r.initial }

/-- the empty-content probe of `parse` (api.py:219-222): tell, read(1), seek back -/
def probe (s : Seekable) : Bool × Seekable :=
  let p0 := s.pos
  let (b, s') := s.read (some 1)
  (b.isEmpty, s'.seek p0)

/-! ### delivery forms (`_open_resource`, api.py:74-141) for byte content -/
inductive Source
  | bytes (b : Bytes)                                 -- a bytes object
  | seekable (content : Bytes) (pos : Nat)            -- caller's seekable binary stream at an offset
  | nonSeekable (content : Bytes) (pos : Nat)         -- caller's stream without seek: read() into BytesIO
  | path (content : Bytes)                            -- a file name: opened by feedparser
deriving Repr

structure Opened where
  file : Seekable
  callerOwned : Bool       -- `hasattr(url_file_stream_or_string, "read")`: never closed by feedparser
deriving Repr

def openResource : Source → Opened
  | .bytes b => ⟨⟨b, 0⟩, false⟩
  | .seekable c p => ⟨⟨c, p⟩, true⟩
  | .nonSeekable c p => ⟨⟨c.drop p, 0⟩, true⟩
  | .path c => ⟨⟨c, 0⟩, false⟩

/-- the bytes the parsers will see -/
def Opened.payload (o : Opened) : Bytes := o.file.content.drop o.file.pos

end FeedVerif.Stream
