import FeedVerif.Model.Init
import FeedVerif.Model.Proto
/-!
Driver glue for M-init: `init run <i|c> <schedule: comma-separated thread ids> <nAttrs> <name>…` (names as hex fields; the first
nAttrs are svg_attributes, the rest svg_elements) → `T0:<tables>;T1:<tables>;C:<class tables>` with
tables = `attrs|attrMap|elems|elemMap`, names comma-separated, map entries `k>v`; `-` when the thread has no result.
-/
namespace FeedVerif.Init
open FeedVerif.Proto

def showL (l : List Str) : String := if l.isEmpty then "_" else ",".intercalate (l.map encChars)
def showM (m : List (Str × Str)) : String := if m.isEmpty then "_" else ",".intercalate (m.map fun p => encChars p.1 ++ ">" ++ encChars p.2)
def showT (t : Tables) : String := showL t.attrs ++ "|" ++ showM t.attrMap ++ "|" ++ showL t.elems ++ "|" ++ showM t.elemMap

def driverStep (ws : List String) : String :=
  match ws with
  | "run" :: pl :: sched :: n :: names =>
    match (if sched == "_" then some [] else (sched.splitOn ",").mapM String.toNat?), n.toNat?, names.mapM decChars with
    | some sched, some n, some names =>
      let where_ := if pl == "c" then Placement.onClass else Placement.onInstance
      let r := run (lazySys where_) ⟨names.take n, [], names.drop n, []⟩ (fun _ => {}) sched
      let th (t : Nat) := match (r.2 t).result with | some x => showT x | none => "-"
      "T0:" ++ th 0 ++ ";T1:" ++ th 1 ++ ";C:" ++ showT r.1
    | _, _, _ => "bad-op"
  | _ => "bad-op"

end FeedVerif.Init
