/-
M-dict — model of `feedparser.util.FeedParserDict` (util.py:31-158).

A dict is an association list `Store`; `raw`/`rawSet`/`rawDel` are `dict.__getitem__`,
`dict.__setitem__`, `dict.__delitem__`.  Values are abstracted to the three shapes the derived
views inspect: strings, lists of link dicts (rel / href / other items), lists of tag terms.
The alias table is a parameter `km` of every definition; `keymap` is its instantiation with the
table regenerated from `/repo` (`Gen.Dict.keymapRaw`).
-/
import FeedVerif.Gen.Dict

namespace FeedVerif.Dict

abbrev Key := String

/-- keymap targets: single canonical key or ordered candidate list -/
inductive Target | one (k : Key) | many (ks : List Key) deriving Repr, DecidableEq

abbrev Keymap := List (Key × Target)

def keymapOf (raw : List (String × Bool × List String)) : Keymap :=
  raw.map fun (k, isList, ts) => (k, if isList then Target.many ts else Target.one (ts.headD ""))

/-- the alias table of the working tree -/
def keymap : Keymap := keymapOf Gen.Dict.keymapRaw

structure Link where
  rel : Option String
  href : Option String
  other : List (String × String) := []
deriving DecidableEq, Repr

inductive Val
  | str (s : String)
  | links (ls : List Link)
  | tags (terms : List String)     -- each tag dict reduced to its "term"
  | none                           -- Python's None stored as a value (a JSON feed's `"summary": null`): present, like any other value
deriving DecidableEq, Repr

abbrev Store := List (Key × Val)

def raw (s : Store) (k : Key) : Option Val := (s.find? (·.1 == k)).map (·.2)
def rawSet (s : Store) (k : Key) (v : Val) : Store := (k, v) :: s.filter (·.1 != k)
def rawDel (s : Store) (k : Key) : Store := s.filter (·.1 != k)

inductive Err | keyError (k : Key) | typeError deriving DecidableEq, Repr

/-- result of `__getitem__`: value + whether the DeprecationWarning fired -/
abbrev Res := Except Err (Val × Bool)

def lookupTarget (km : Keymap) (k : Key) : Option Target := (km.find? (·.1 == k)).map (·.2)

/-- `__getitem__` (util.py:51-114) -/
def getitem (km : Keymap) (s : Store) (key : Key) : Res :=
  if key == "category" then
    match raw s "tags" with
    | some (.tags (t :: _)) => .ok (.str t, false)
    | some (.tags []) => .error (.keyError "category")     -- IndexError → KeyError
    | some _ => .error .typeError
    | none => .error (.keyError "tags")
  else if key == "enclosures" then
    match raw s "links" with
    | some (.links ls) =>
      if ls.any (·.rel.isNone) then .error (.keyError "rel")
      else .ok (.links ((ls.filter (·.rel == some "enclosure")).map fun l => { l with rel := none }), false)
    | some _ => .error .typeError
    | none => .error (.keyError "links")
  else if key == "license" then
    match raw s "links" with
    | some (.links ls) =>
      -- `for link in links: if link["rel"] == "license" and "href" in link: return link["href"]`
      -- a link without rel before the first hit raises KeyError('rel')
      let rec go : List Link → Res
        | [] => (match raw s "license" with | some v => .ok (v, false) | none => .error (.keyError "license"))
        | l :: rest =>
          match l.rel with
          | none => .error (.keyError "rel")
          | some r =>
            if r == "license" then
              match l.href with
              | some h => .ok (.str h, false)
              | none => go rest
            else go rest
      go ls
    | some _ => .error .typeError
    | none => .error (.keyError "links")
  else if key == "updated" then
    match raw s "updated", raw s "published" with
    | none, some p => .ok (p, true)
    | some u, _ => .ok (u, false)
    | none, none => .error (.keyError "updated")
  else if key == "updated_parsed" then
    match raw s "updated_parsed", raw s "published_parsed" with
    | none, some p => .ok (p, true)
    | some u, _ => .ok (u, false)
    | none, none => .error (.keyError "updated_parsed")
  else
    let direct : Res := match raw s key with | some v => .ok (v, false) | none => .error (.keyError key)
    match lookupTarget km key with
    | some (.many ks) =>
      match ks.find? (fun k => (raw s k).isSome) with
      | some k => (match raw s k with | some v => .ok (v, false) | none => direct)
      | none => direct
    | some (.one k) => (match raw s k with | some v => .ok (v, false) | none => direct)
    | none => direct

/-- `__contains__` (util.py:116-127) -/
def contains (km : Keymap) (s : Store) (key : Key) : Except Err Bool :=
  if key == "updated" || key == "updated_parsed" then .ok (raw s key).isSome
  else match getitem km s key with
    | .ok _ => .ok true
    | .error (.keyError _) => .ok false
    | .error e => .error e

/-- `get(key, default)` (util.py:131-139) -/
def get (km : Keymap) (s : Store) (key : Key) (d : Val) : Except Err Val :=
  match getitem km s key with
  | .ok (v, _) => .ok v
  | .error (.keyError _) => .ok d
  | .error e => .error e

/-- `__getattr__` (util.py:147-153): KeyError becomes AttributeError, the value is `d[key]` -/
inductive AttrRes | val (v : Val) (warned : Bool) | attributeError | typeError | classAttr
deriving DecidableEq, Repr

/-- names resolved by normal attribute lookup on the class (dict methods, `keymap`, `has_key`):
`__getattr__` is never consulted for them -/
def classAttrs : List String := Gen.Dict.classAttrs

def getattr (km : Keymap) (s : Store) (key : Key) : AttrRes :=
  if classAttrs.contains key then .classAttr else
  match getitem km s key with
  | .ok (v, w) => .val v w
  | .error (.keyError _) => .attributeError
  | .error .typeError => .typeError

def canon (km : Keymap) (key : Key) : Key :=
  match lookupTarget km key with
  | some (.one k) => k
  | some (.many (k :: _)) => k
  | _ => key

/-- `__setitem__` (util.py:141-145) -/
def setitem (km : Keymap) (s : Store) (key : Key) (v : Val) : Store := rawSet s (canon km key) v

/-- `del d[key]` is plain `dict.__delitem__` (FeedParserDict does not override it) -/
def delitem (s : Store) (key : Key) : Except Err Store :=
  match raw s key with
  | some _ => .ok (rawDel s key)
  | none => .error (.keyError key)

/-! ### histories -/

inductive Op
  | set (k : Key) (v : Val)
  | getI (k : Key)
  | has (k : Key)
  | getD (k : Key) (d : Val)
  | attr (k : Key)
  | del (k : Key)
deriving Repr

inductive Obs
  | unit
  | res (r : Res)
  | bool (r : Except Err Bool)
  | val (r : Except Err Val)
  | attr (r : AttrRes)
  | delErr (k : Key)
deriving Repr

def stepOp (km : Keymap) (s : Store) : Op → Store × Obs
  | .set k v => (setitem km s k v, .unit)
  | .getI k => (s, .res (getitem km s k))
  | .has k => (s, .bool (contains km s k))
  | .getD k d => (s, .val (get km s k d))
  | .attr k => (s, .attr (getattr km s k))
  | .del k => match delitem s k with
    | .ok s' => (s', .unit)
    | .error _ => (s, .delErr k)

def runOps (km : Keymap) : Store → List Op → Store × List Obs
  | s, [] => (s, [])
  | s, op :: ops =>
    let (s1, o) := stepOp km s op
    let (s2, os) := runOps km s1 ops
    (s2, o :: os)

end FeedVerif.Dict
