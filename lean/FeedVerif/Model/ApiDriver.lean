import FeedVerif.Model.Api
import FeedVerif.Model.Proto
/-! Driver glue for M-api: `api parse <9 flags>` → `keys|bozo|exc|ran|final` -/
namespace FeedVerif.Api

def decFlag : String → Option Bool
  | "1" => some true | "0" => some false | _ => none

def excName : Option Exc → String
  | none => "-" | some .url => "url" | some .transport => "transport" | some .conv => "conv" | some .sax => "sax" | some .json => "json"
def parserName : Parser → String
  | .strict => "strict" | .loose => "loose" | .json => "json"

def insertSorted (x : String) : List String → List String
  | [] => [x]
  | y :: ys => if x < y then x :: y :: ys else y :: insertSorted x ys
def sortStrings (l : List String) : List String := l.foldr insertSorted []

def driverStep (ws : List String) : String :=
  match ws with
  | ["parse", a, b, c, d, e, f, g, h, i, j, k, l, m] =>
    match [a, b, c, d, e, f, g, h, i, j, k, l, m].mapM decFlag with
    | some [a, b, c, d, e, f, g, h, i, j, k, l, m] =>
      let r := parse ⟨a, b, c, d, e, f, g, h, i, j, k, l, m⟩
      ",".intercalate (sortStrings r.keys) ++ "|" ++ (if r.bozo then "1" else "0") ++ "|" ++ excName r.exc ++ "|" ++
        ",".intercalate (r.ran.map parserName) ++ "|" ++ (match r.final with | none => "-" | some p => parserName p)
    | _ => "bad-op"
  | "hdr" :: e :: n :: rest =>
    -- `hdr <n> k v … (n response pairs) k v … (caller pairs)`: names / values as hex fields → the merged dict, sorted
    match decFlag e, n.toNat?, rest.mapM Proto.dec with
    | some e, some n, some fs =>
      let rec pairs : List String → List (String × String)
        | k :: v :: r => (k, v) :: pairs r
        | _ => []
      let all := pairs fs
      let d := resultHeaders (fun s => s.map Char.toLower) e (all.take n) (all.drop n)
      ";".intercalate (sortStrings (d.map fun p => Proto.enc p.1 ++ "=" ++ Proto.enc p.2))
    | _, _, _ => "bad-op"
  | ["base", href, cl, s2, s1] =>
    match Proto.dec href, Proto.dec cl, Proto.dec s2, Proto.dec s1 with
    | some href, some cl, some s2, some s1 => Proto.enc (baseUri (fun _ _ => s2) (fun _ => s1) href cl)
    | _, _, _, _ => "bad-op"
  | _ => "bad-op"

end FeedVerif.Api
