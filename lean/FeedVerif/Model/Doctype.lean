/-
M-doctype — model of `sanitizer.replace_doctype` (sanitizer.py:902-985, after the `fix:` commit that
lets a declaration start after `[`, `>`, `;` or white space as well as at a line start).
Bytes are modelled as `Char`s (Latin-1 view); the three regular expressions are hand-translated:
  ENTITY   (?:^|(?<=[>\[\s;]))\s*<!ENTITY([^>]*?)>    (MULTILINE)   findall + sub → ""
  DOCTYPE  (?:^|(?<=[>\s]))\s*<!DOCTYPE([^>]*?)>       (MULTILINE)   findall + sub → replacement
  SAFE     \s+(\w+)\s+"(&#\w+;|[^&"]*)"                              match (anchored at start) / findall
-/
namespace FeedVerif.Doctype

abbrev Str := List Char

def ws (c : Char) : Bool := (9 ≤ c.toNat && c.toNat ≤ 13) || c.toNat == 32          -- bytes \s
def wordc (c : Char) : Bool :=
  (97 ≤ c.toNat && c.toNat ≤ 122) || (65 ≤ c.toNat && c.toNat ≤ 90) || (48 ≤ c.toNat && c.toNat ≤ 57) || c.toNat == 95

def startsWith (p s : Str) : Bool := s.take p.length == p

/-- `\s*<kw([^>]*?)>` at the head of `s`: (captured group, rest after `>`) -/
def matchDeclAt (kw : Str) (s : Str) : Option (Str × Str) :=
  let s1 := s.dropWhile ws
  if startsWith kw s1 then
    let body := s1.drop kw.length
    match body.dropWhile (· != '>') with
    | _ :: rest => some (body.takeWhile (· != '>'), rest)
    | [] => none
  else none

/-- scan for all non-overlapping matches; `okPrev` decides whether a match may start after the
previous character (`none` = start of data). Returns (groups, text with each match replaced by `repl`). -/
def scanF (kw : Str) (okPrev : Option Char → Bool) (repl : Str) : Nat → Option Char → Str → List Str × Str
  | _, _, [] => ([], [])
  | 0, _, s => ([], s)
  | n + 1, prev, c :: rest =>
    match (if okPrev prev then matchDeclAt kw (c :: rest) else none) with
    | some (g, after) =>
      -- previous char for the continuation is the '>' that ended the match
      let (gs, out) := scanF kw okPrev repl n (some '>') after
      (g :: gs, repl ++ out)
    | none =>
      let (gs, out) := scanF kw okPrev repl n (some c) rest
      (gs, c :: out)

def scan (kw : Str) (okPrev : Option Char → Bool) (repl : Str) (s : Str) : List Str × Str :=
  scanF kw okPrev repl (s.length + 1) none s

def entityPrevOK : Option Char → Bool
  | none => true
  | some c => c == '\n' || c == '>' || c == '[' || c == ';' || ws c
def doctypePrevOK : Option Char → Bool
  | none => true
  | some c => c == '\n' || c == '>' || ws c

/-- SAFE pattern at the head of `e`: `\s+(\w+)\s+"(&#\w+;|[^&"]*)"` → (name, value, rest) -/
def safeMatch (e : Str) : Option (Str × Str × Str) :=
  let w1 := e.takeWhile ws
  if w1.isEmpty then none else
  let r1 := e.dropWhile ws
  let name := r1.takeWhile wordc
  if name.isEmpty then none else
  let r2 := r1.dropWhile wordc
  if (r2.takeWhile ws).isEmpty then none else
  match r2.dropWhile ws with
  | '"' :: r3 =>
    -- alternative 1: &#\w+;
    let alt1 : Option (Str × Str) :=
      match r3 with
      | '&' :: '#' :: r4 =>
        let ref := r4.takeWhile wordc
        if ref.isEmpty then none else
        (match r4.dropWhile wordc with
          | ';' :: '"' :: rest => some ('&' :: '#' :: ref ++ [';'], rest)
          | _ => none)
      | _ => none
    match alt1 with
    | some (v, rest) => some (name, v, rest)
    | none =>
      let v := r3.takeWhile (fun c => c != '&' && c != '"')
      (match r3.dropWhile (fun c => c != '&' && c != '"') with
        | '"' :: rest => some (name, v, rest)
        | _ => none)
  | _ => none

/-- `SAFE.findall(s)`: unanchored, non-overlapping, left to right -/
def safeFindAllF : Nat → Str → List (Str × Str)
  | _, [] => []
  | 0, _ => []
  | n + 1, c :: rest =>
    match safeMatch (c :: rest) with
    | some (k, v, after) => (k, v) :: safeFindAllF n after
    | none => safeFindAllF n rest

def safeFindAll (s : Str) : List (Str × Str) := safeFindAllF (s.length + 1) s

def containsSub (needle : Str) : Str → Bool
  | [] => needle.isEmpty
  | c :: rest => startsWith needle (c :: rest) || containsSub needle rest

def lowerS (s : Str) : Str := s.map Char.toLower

def joinWith (sep : Str) : List Str → Str
  | [] => []
  | [x] => x
  | x :: xs => x ++ sep ++ joinWith sep xs

/-- the rest after the first occurrence of `pat` (`[]` when there is none: Python's `find` answers -1 and the scan jumps to the end) -/
def dropThrough (pat : Str) : Str → Str
  | [] => []
  | c :: r => if startsWith pat (c :: r) then (c :: r).drop pat.length else dropThrough pat r

/-- `_skip_declaration`: what follows a `<!…>` declaration — quoted literals, comments, processing instructions and a bracketed internal subset inside it are
skipped as a whole.  `s` starts after the `<!`. -/
def skipDecl : Nat → Int → Str → Str
  | 0, _, _ => []
  | _, _, [] => []
  | n + 1, depth, c :: r =>
    if c == '"' || c == '\'' then skipDecl n depth (dropThrough [c] r)
    else if startsWith "<!--".toList (c :: r) then skipDecl n depth (dropThrough "-->".toList (r.drop 3))
    else if startsWith "<?".toList (c :: r) then skipDecl n depth (dropThrough "?>".toList (r.drop 1))
    else if c == '[' then skipDecl n (depth + 1) r
    else if c == ']' then skipDecl n (depth - 1) r
    else if c == '>' && depth ≤ 0 then r
    else skipDecl n depth r

/-- `_first_element_offset`: the suffix of the document that starts with the `<` of the first start tag — text that looks like one inside a comment, a
processing instruction or the DOCTYPE declaration does not count -/
def firstElemRest : Nat → Str → Option Str
  | 0, _ => none
  | n + 1, s =>
    match s.dropWhile (· != '<') with
    | [] => none
    | c :: r =>
      if startsWith "<!--".toList (c :: r) then firstElemRest n (dropThrough "-->".toList (r.drop 3))
      else if startsWith "<?".toList (c :: r) then firstElemRest n (dropThrough "?>".toList (r.drop 1))
      else if startsWith "<!".toList (c :: r) then firstElemRest n (skipDecl (r.length + 1) 0 (r.drop 1))
      else match r with
        | d :: _ => if wordc d then some (c :: r) else firstElemRest n r
        | [] => none

/-- index just after the `<` of the first element (0 when there is none) -/
def firstElement (data : Str) : Nat :=
  match firstElemRest (data.length + 1) data with
  | some rest => data.length - rest.length + 1
  | none => 0

structure Result where
  version : Option String
  data : Str
  entities : List (Str × Str)
deriving Repr

def replaceDoctype (data : Str) : Result :=
  -- `re.match(rb"^\s*<", data)`
  match data.dropWhile ws with
  | '<' :: _ =>
    let fe := firstElement data
    let head := data.take fe
    let tail := data.drop fe
    let (entityResults, head1) := scan "<!ENTITY".toList entityPrevOK [] head
    let (doctypeResults, _) := scan "<!DOCTYPE".toList doctypePrevOK [] head1
    let doctype := doctypeResults.headD []
    let version := if containsSub "netscape".toList (lowerS doctype) then some "rss091n" else none
    let safeEntities := entityResults.filter fun e => (safeMatch e).isSome
    let replacement : Str :=
      if doctypeResults.length == 1 && !entityResults.isEmpty && !safeEntities.isEmpty then
        "<!DOCTYPE feed [\n<!ENTITY".toList ++ joinWith ">\n<!ENTITY ".toList safeEntities ++ ">\n]>".toList
      else []
    let (_, head2) := scan "<!DOCTYPE".toList doctypePrevOK replacement head1
    { version := version, data := head2 ++ tail, entities := safeFindAll replacement }
  | _ => { version := none, data := data, entities := [] }

end FeedVerif.Doctype
