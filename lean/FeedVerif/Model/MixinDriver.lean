import FeedVerif.Model.Mixin
import FeedVerif.Model.Proto
/-! Driver glue for M-mixin (stage 1). -/
namespace FeedVerif.Mixin
open FeedVerif.Proto

structure DSt where
  s : MSt := {}
  loose : Bool := false
  resolveOn : Bool := true
  sanitizeOn : Bool := true
  dead : Option Str := none      -- set once the stream left the modelled domain
  pendJ : List (Str × Str) := [] -- stage 4: what `resolve_uri` answered inside the NEXT start handler (`oracle J:uri|res …`)

def encV : V → String
  | .s x => "s:" ++ encChars x
  | .t none => "t:-"
  | .t (some l) => "t:" ++ ",".intercalate (l.map toString)
  | .d kv => "d:(" ++ ",".intercalate ((kv.map fun (k, v) => encChars k ++ "=" ++ encChars v).toArray.qsort (· < ·)).toList ++ ")"
  | .nil => "t:-"
  | .b x => if x then "b:1" else "b:0"
  | .ref i => "ref:" ++ toString i      -- resolved by `encD` (the same object as authors[i] of the enclosing dict)
  | .l items => "l:[" ++ "|".intercalate (items.map fun kv => "(" ++ ",".intercalate ((kv.map fun (k, v) => encChars k ++ "=" ++ (match v with | some x => encChars x | none => "~")).toArray.qsort (· < ·)).toList ++ ")") ++ "]"
  | .det kv => "d:(" ++ ",".intercalate ((kv.map fun (k, v) => encChars k ++ "=" ++ (match v with | some x => encChars x | none => "~")).toArray.qsort (· < ·)).toList ++ ")"

def encD (d : D) : String :=
  -- `X_detail = .ref i` is the same object as `Xs[i]`
  let deref (k : Str) (v : V) : V := match v with
    | .ref i => (match listOf d ((k.take (k.length - 7)) ++ ['s']) with | some items => .det (items.getD i []) | none => .det [])
    | v => v
  "{" ++ ";".intercalate ((d.map fun (k, v) => encChars k ++ "=" ++ encV (deref k v)).toArray.qsort (· < ·)).toList ++ "}"

def encState (s : MSt) : String :=
  s!"{s.c.depth} {s.stack.length} {if s.c.inentry then 1 else 0} {s.c.entries.length} {enc s.c.base.baseuri} {encOpt s.c.base.lang} {if s.c.incontent then 1 else 0}"

def dump (s0 : MSt) : String :=
  let s := s0.c
  "feed=" ++ encD s.feed ++ " entries=[" ++ "|".intercalate (s.entries.reverse.map fun e => encD e.d) ++ "] version=" ++ encChars s.version ++
  " ns={" ++ ";".intercalate ((s.nsInUse.map fun (k, v) => encChars k ++ "=" ++ encChars v).toArray.qsort (· < ·)).toList ++ "}"

def decKV (f : String) : Option (Str × Str) :=
  match f.splitOn "|" with
  | [k, v] => match decChars k, decChars v with | some k, some v => some (k, v) | _, _ => none
  | _ => none

def asciiOnly (x : Str) : Bool := x.all (fun c => c.toNat < 128)

def apply (d : DSt) (o : Ops) (ev : MEv) : DSt × String :=
  match d.dead with
  | some w => (d, "unmodelled " ++ encChars w)
  | none =>
    match mstep o d.s ev with
    | .ok s' => ({ d with s := s' }, encState s')
    | .unmodelled w => ({ d with dead := some w }, "unmodelled " ++ encChars w)

/--
`reset <loose> <baseuri> <lang|->` · `start <tag> <safe2> <safe1> <k|v>…` · `stop <tag> <J:uri|res>…` ·
`data <text>` · `ns <prefix|-> <uri>` · `dump`
-/
def driverStep (d : DSt) (ws : List String) : DSt × String :=
  let baseOps (r2 r1 : String) : Base.Ops := { safe2 := fun _ _ => r2, safe1 := fun _ => r1, join := fun _ r => r }
  match ws with
  | ["reset", l, b, lang, ron, son] =>
    match dec b, decOpt lang with
    | some b, some lang =>
      let feed : D := match lang with
        | some l => if l.isEmpty then [] else [(S "language", V.s (replaceAll ['_'] ['-'] l.toList))]
        | none => []
      let s : MSt := { c := { feed := feed, base := ⟨b, lang, [], []⟩ } }
      ({ s := s, loose := l == "1", dead := none, resolveOn := ron == "1", sanitizeOn := son == "1" }, encState s)
    | _, _ => (d, "bad-op")
  | "start" :: tag :: r2 :: r1 :: attrs =>
    match decChars tag, dec r2, dec r1, attrs.mapM decKV with
    | some tag, some r2, some r1, some as =>
      if !asciiOnly tag || as.any (fun kv => !asciiOnly kv.1 || !asciiOnly kv.2) then ({ d with dead := some (S "non-ascii") }, "unmodelled " ++ enc "non-ascii") else
      let join (_b u : Str) : Str := match d.pendJ.find? (·.1 == u) with | some p => p.2 | none => S "<oracle-miss>"
      apply { d with pendJ := [] } { base := baseOps r2 r1, join := join, fix := id, loose := d.loose } (.start tag as)
    | _, _, _, _ => (d, "bad-op")
  | "oracle" :: fields =>
    let tbl : List (Str × Str) := fields.filterMap fun f =>
      if f.startsWith "J:" then
        (match (f.drop 2).toString.splitOn "|" with
         | [u, r] => (match decChars u, decChars r with | some u, some r => some (u, r) | _, _ => none)
         | _ => none)
      else none
    ({ d with pendJ := tbl }, "ok")
  | "stop" :: tag :: joins0 =>
    -- optional trailing `D:<tuple|->`: what the real `_parse_date` answered for this element's text
    let dates := joins0.filter (·.startsWith "D:")
    let joins := joins0.filter fun f => f.startsWith "J:"
    -- stage 2: what the real post-processing steps of `pop()` answered while this end tag was processed (one call each at most)
    let field (pfx : String) : Option String := (joins0.find? (·.startsWith pfx)).map fun f => (f.drop 2).toString
    let strField (pfx : String) : Str := match field pfx with
      | some v => (decChars v).getD (S "<bad-field>")
      | none => S "<oracle-miss>"
    let looks : Bool := field "L:" == some "1"
    let b64v : Option Str := match field "B:" with
      | some v => if v == "-" then none else decChars v
      | none => some (S "<oracle-miss>")
    let emailv : Option Str := match field "M:" with
      | some v => if v == "-" then none else decChars v
      | none => some (S "<oracle-miss>")
    let pd : Option (List Int) := match dates with
      | d0 :: _ => let v := (d0.drop 2).toString; if v == "-" then none else (v.splitOn ",").mapM parseInt
      | [] => none
    match decChars tag with
    | some tag =>
      let tbl : List (Str × Str) := joins.filterMap fun f =>
        match (f.drop 2).toString.splitOn "|" with
        | [u, r] => (match decChars u, decChars r with | some u, some r => some (u, r) | _, _ => none)
        | _ => none
      let join (_b u : Str) : Str := match tbl.find? (·.1 == u) with | some p => p.2 | none => S "<oracle-miss>"
      let opsWith (lk : Bool) : Ops :=
        { base := baseOps "" "", join := join, fix := id, loose := d.loose, parseDate := fun _ => pd,
          looksHtml := fun _ => lk, resolveMarkup := fun _ _ _ => strField "R:", sanitize := fun _ _ => strField "Z:",
          b64 := fun _ => b64v, decodeEnt := fun _ _ => strField "E:", resolveOn := d.resolveOn, sanitizeOn := d.sanitizeOn,
          emailMatch := fun _ => emailv }
      -- a Boolean oracle has no "missing" value: when the real run recorded no `looks_like_html` answer but the model's step DEPENDS on one, say so
      -- (the model consults the guess where the real code did not call it, or the other way round)
      let r1 := apply d (opsWith looks) (.stop tag)
      if (field "L:").isNone then
        let r2 := apply d (opsWith true) (.stop tag)
        if r1.2 != r2.2 || dump r1.1.s != dump r2.1.s then ({ d with dead := some (S "oracle-miss") }, "oracle-miss looks_like_html") else r1
      else r1
    | none => (d, "bad-op")
  | ["data", t] =>
    match decChars t with
    | some t => if !asciiOnly t then ({ d with dead := some (S "non-ascii") }, "unmodelled " ++ enc "non-ascii")
                else apply d { base := baseOps "" "", join := fun _ u => u, fix := id, loose := d.loose } (.data t)
    | none => (d, "bad-op")
  | ["decode", ty, t] =>
    -- the loose back end's decode_entities as a function of its own (tied separately; inside runs it stays a recorded oracle)
    match decChars ty, decChars t with
    | some ty, some t => (d, "s:" ++ encChars (looseDecode ty t))
    | _, _ => (d, "bad-op")
  | ["cref", r] =>
    -- stage 6 (loose back end): `handle_charref(ref)`; characters beyond ASCII leave the driver's domain (the text repairs of `pop()` are the identity on ASCII only)
    match decChars r with
    | some r =>
      (match crefText r with
       | some t => if !asciiOnly t then ({ d with dead := some (S "non-ascii") }, "unmodelled " ++ enc "non-ascii")
                   else apply d { base := baseOps "" "", join := fun _ u => u, fix := id, loose := d.loose } (.cref r)
       | none => apply d { base := baseOps "" "", join := fun _ u => u, fix := id, loose := d.loose } (.cref r))
    | none => (d, "bad-op")
  | ["eref", r, found, text] =>
    -- `handle_entityref(ref)`; <found> <text>: what `self.entities.get(ref)` answered in the real run
    match decChars r, decChars text with
    | some r, some text =>
      let o : Ops := { base := baseOps "" "", join := fun _ u => u, fix := id, loose := d.loose,
                       entities := fun x => if x == r && found == "1" then some text else none }
      if !asciiOnly (erefText o r) then ({ d with dead := some (S "non-ascii") }, "unmodelled " ++ enc "non-ascii")
      else apply d o (.eref r)
    | _, _ => (d, "bad-op")
  | ["ns", p, u] =>
    match decOpt p, decChars u with
    | some p, some u => apply d { base := baseOps "" "", join := fun _ u => u, fix := id, loose := d.loose } (.ns (p.map String.toList) u)
    | _, _ => (d, "bad-op")
  | ["dump"] => (d, match d.dead with | some w => "unmodelled " ++ encChars w | none => dump d.s)
  | _ => (d, "bad-op")

end FeedVerif.Mixin
