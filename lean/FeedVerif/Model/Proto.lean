/-
Line-protocol helpers for the model driver (Main.lean): fields are lists of hexadecimal code
points separated by '.', the empty string is "_", an absent optional is "-".
-/
namespace FeedVerif.Proto

def hexDigit (n : Nat) : Char :=
  if n < 10 then Char.ofNat (48 + n) else Char.ofNat (87 + n)

def toHex (n : Nat) : String :=
  if n < 16 then (hexDigit n).toString
  else
    let rec go (fuel n : Nat) (acc : List Char) : List Char :=
      match fuel with
      | 0 => acc
      | fuel + 1 => if n = 0 then acc else go fuel (n / 16) (hexDigit (n % 16) :: acc)
    String.ofList (go 8 n [])

def hexVal (c : Char) : Option Nat :=
  if '0' ≤ c ∧ c ≤ '9' then some (c.toNat - 48)
  else if 'a' ≤ c ∧ c ≤ 'f' then some (c.toNat - 87)
  else if 'A' ≤ c ∧ c ≤ 'F' then some (c.toNat - 55)
  else none

def parseHex (s : String) : Option Nat :=
  if s.isEmpty then none else
  s.toList.foldl (fun acc c => match acc, hexVal c with
    | some a, some d => some (a * 16 + d)
    | _, _ => none) (some 0)

def encChars (cs : List Char) : String :=
  match cs with
  | [] => "_"
  | _ => ".".intercalate (cs.map fun c => toHex c.toNat)

def enc (s : String) : String := encChars s.toList

def decChars (f : String) : Option (List Char) :=
  if f == "_" then some [] else
  (f.splitOn ".").foldr (fun h acc => match parseHex h, acc with
    | some n, some l => some (Char.ofNat n :: l)
    | _, _ => none) (some [])

def dec (f : String) : Option String := (decChars f).map String.ofList

def encOpt : Option String → String
  | none => "-"
  | some s => enc s

def decOpt (f : String) : Option (Option String) :=
  if f == "-" then some none else (dec f).map some

def parseNat (s : String) : Option Nat := s.toNat?

def parseInt (s : String) : Option Int :=
  if s.startsWith "-" then (s.drop 1).toNat?.map (fun n => - (n : Int)) else s.toNat?.map (fun n => (n : Int))

end FeedVerif.Proto
