/-
M-init — interleaving model for state that several `parse()` calls could share.

Part 1 (generic): threads with private state over a shared store, stepped one statement at a time under
an arbitrary schedule.  Part 2: the lazy derivation of the lower-cased SVG tables in
`HTMLSanitizer.unknown_starttag` (sanitizer.py:779-791), statement by statement, in the two placements
one could give its results: on the INSTANCE (`self.x = …`, what the code does: class attributes are
only read) or on the CLASS (what a "derive once per process" rewrite would do).
-/
namespace FeedVerif.Init

/-! ### Part 1: threads over a shared store -/
structure Sys (S L : Type) where
  step : Nat → S → L → S × L          -- thread id → shared → private → (shared', private')

def run {S L : Type} (sys : Sys S L) (s : S) (ls : Nat → L) : List Nat → S × (Nat → L)
  | [] => (s, ls)
  | t :: rest =>
    let r := sys.step t s (ls t)
    run sys r.1 (fun u => if u = t then r.2 else ls u) rest

/-- thread `t` running alone for `n` statements from shared store `s` (which it never changes, see `ReadOnly`) -/
def alone {S L : Type} (sys : Sys S L) (t : Nat) (s : S) : Nat → L → L
  | 0, l => l
  | n + 1, l => alone sys t s n (sys.step t s l).2

def ReadOnly {S L : Type} (sys : Sys S L) : Prop := ∀ t s l, (sys.step t s l).1 = s

/-! ### Part 2: the lazy SVG tables -/
abbrev Str := List Char
def lowerS (x : Str) : Str := x.map Char.toLower

/-- the four attributes involved, wherever they are stored -/
structure Tables where
  attrs : List Str := []            -- svg_attributes
  attrMap : List (Str × Str) := []  -- svg_attr_map ({} initially)
  elems : List Str := []            -- svg_elements
  elemMap : List (Str × Str) := []  -- svg_elem_map
deriving DecidableEq, Repr

/-- a sanitizer instance: program counter, temporaries, and its own attribute overrides (`self.__dict__`) -/
structure Inst where
  pc : Nat := 0
  lower : List Str := []
  mix : List Str := []
  ownAttrs : Option (List Str) := none      -- instance attributes shadow the class attributes once assigned
  ownMap : Option (List (Str × Str)) := none
  ownElems : Option (List Str) := none
  ownElemMap : Option (List (Str × Str)) := none
  result : Option Tables := none   -- what this sanitizer ends up using
deriving Repr

inductive Placement | onInstance | onClass deriving DecidableEq

/-- attribute lookup `self.svg_attributes`: instance first, then class -/
def getAttrs (cls : Tables) (i : Inst) : List Str := i.ownAttrs.getD cls.attrs
def getMap (cls : Tables) (i : Inst) : List (Str × Str) := i.ownMap.getD cls.attrMap
def getElems (cls : Tables) (i : Inst) : List Str := i.ownElems.getD cls.elems
def getElemMap (cls : Tables) (i : Inst) : List (Str × Str) := i.ownElemMap.getD cls.elemMap

/-- one statement of the lazy block (sanitizer.py:781-791):
0 `if not self.svg_attr_map:`  1 `lower = […attributes]`  2 `mix = […]`  3 `svg_attributes = lower`  4 `svg_attr_map = {…}`
5 `lower = […elements]`  6 `mix = […]`  7 `svg_elements = lower`  8 `svg_elem_map = {…}`  9 `acceptable_attributes = self.svg_attributes` (use) -/
def stmt (where_ : Placement) (cls : Tables) (i : Inst) : Tables × Inst :=
  match i.pc with
  | 0 => if (getMap cls i).isEmpty then (cls, { i with pc := 1 }) else (cls, { i with pc := 9 })
  | 1 => (cls, { i with pc := 2, lower := (getAttrs cls i).map lowerS })
  | 2 => (cls, { i with pc := 3, mix := (getAttrs cls i).filter fun a => !i.lower.contains a })
  | 3 => match where_ with
    | .onInstance => (cls, { i with pc := 4, ownAttrs := some i.lower })
    | .onClass => ({ cls with attrs := i.lower }, { i with pc := 4 })
  | 4 => let m := i.mix.map fun a => (lowerS a, a)
    match where_ with
    | .onInstance => (cls, { i with pc := 5, ownMap := some m })
    | .onClass => ({ cls with attrMap := m }, { i with pc := 5 })
  | 5 => (cls, { i with pc := 6, lower := (getElems cls i).map lowerS })
  | 6 => (cls, { i with pc := 7, mix := (getElems cls i).filter fun a => !i.lower.contains a })
  | 7 => match where_ with
    | .onInstance => (cls, { i with pc := 8, ownElems := some i.lower })
    | .onClass => ({ cls with elems := i.lower }, { i with pc := 8 })
  | 8 => let m := i.mix.map fun a => (lowerS a, a)
    match where_ with
    | .onInstance => (cls, { i with pc := 9, ownElemMap := some m })
    | .onClass => ({ cls with elemMap := m }, { i with pc := 9 })
  | 9 => (cls, { i with pc := 10, result := some ⟨getAttrs cls i, getMap cls i, getElems cls i, getElemMap cls i⟩ })
  | _ => (cls, i)

def lazySys (where_ : Placement) : Sys Tables Inst := ⟨fun _ cls i => stmt where_ cls i⟩

def derive1 (raw : List Str) : List Str × List (Str × Str) :=
  let lower := raw.map lowerS
  (lower, (raw.filter fun a => !lower.contains a).map fun a => (lowerS a, a))

/-- the tables a sanitizer derives when it runs alone -/
def derived (rawAttrs rawElems : List Str) : Tables :=
  ⟨(derive1 rawAttrs).1, (derive1 rawAttrs).2, (derive1 rawElems).1, (derive1 rawElems).2⟩

end FeedVerif.Init
