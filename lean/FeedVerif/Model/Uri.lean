/-
M-uri — model of the scheme filter `feedparser.urls.make_safe_absolute_uri` (urls.py:87-116), of
Python 3.12 `urllib.parse.urlsplit`'s scheme extraction (`pyScheme`), and the WHATWG URL
"scheme start / scheme" states used as the specification (`whatwgScheme`).
Strings are `List Char`; character classes are defined on code points.
`urljoin` is a PARAMETER of the two-argument form (`join`), nothing about it is assumed.
-/
import FeedVerif.Gen.Urls

namespace FeedVerif.Uri

abbrev Str := List Char

/-- Python `str.isspace` characters stripped by `str.strip()` -/
def pyWs (c : Char) : Bool :=
  let n := c.toNat
  (9 ≤ n && n ≤ 13) || (28 ≤ n && n ≤ 32) || n == 0x85 || n == 0xa0 || n == 0x1680 ||
  (0x2000 ≤ n && n ≤ 0x200a) || n == 0x2028 || n == 0x2029 || n == 0x202f || n == 0x205f || n == 0x3000

def c0sp (c : Char) : Bool := c.toNat ≤ 32
def tabnl (c : Char) : Bool := c.toNat == 9 || c.toNat == 10 || c.toNat == 13
def alpha (c : Char) : Bool := (97 ≤ c.toNat && c.toNat ≤ 122) || (65 ≤ c.toNat && c.toNat ≤ 90)
def schemeCh (c : Char) : Bool :=
  alpha c || (48 ≤ c.toNat && c.toNat ≤ 57) || c.toNat == 43 || c.toNat == 45 || c.toNat == 46
def isColon (c : Char) : Bool := c.toNat == 58

def lstrip (p : Char → Bool) (s : Str) : Str := s.dropWhile p
def rstrip (p : Char → Bool) (s : Str) : Str := (s.reverse.dropWhile p).reverse
def strip (p : Char → Bool) (s : Str) : Str := rstrip p (lstrip p s)

/-- `uri.strip().split(":", 1)[0]` -/
def pyHead (uri : Str) : Str := (strip pyWs uri).takeWhile (fun c => !isColon c)

/-- WHATWG URL scheme-start / scheme states after input preprocessing; `none` = no scheme (relative). -/
def whatwgScheme (uri : Str) : Option Str :=
  let s := (strip c0sp uri).filter (fun c => !tabnl c)
  match s with
  | [] => none
  | c :: _ =>
    if alpha c then
      let pre := s.takeWhile schemeCh
      match s.dropWhile schemeCh with
      | d :: _ => if isColon d then some (pre.map Char.toLower) else none
      | [] => none
    else none

/-- what every allow-list entry looks like (checked by `decide` on the generated table) -/
def goodEntry (a : Str) : Bool :=
  match a with
  | [] => false
  | c :: _ => alpha c && a.all (fun x => schemeCh x && x.toLower == x)

/-- the scheme test of the two-argument form on the already-joined URI (urls.py:113-116) -/
def safe2 (allow : List Str) (joined : Str) : Str :=
  if allow.contains (pyHead joined) then joined else []

/-- Python 3.12 `urlsplit(url).scheme`: lstrip C0/space, delete TAB/CR/LF, then
`i = url.find(':'); i > 0 and url[0] is an ASCII letter and all of url[:i] are scheme chars`
gives `url[:i].lower()`, otherwise the empty scheme (`none`). -/
def pyCore (s : Str) : Option Str :=
  match s.dropWhile (fun c => !isColon c) with
  | [] => none                       -- no ':' at all
  | _ :: _ =>
    match s.takeWhile (fun c => !isColon c) with
    | [] => none                     -- i = 0
    | c :: r => if alpha c && (c :: r).all schemeCh then some ((c :: r).map Char.toLower) else none

def pyScheme (uri : Str) : Option Str :=
  pyCore ((lstrip c0sp uri).filter (fun c => !tabnl c))

/-- the WHATWG scheme-start / scheme states on the preprocessed input (same text as in
`whatwgScheme`, named so that lemmas can speak about it) -/
def whatwgCore (s : Str) : Option Str :=
  match s with
  | [] => none
  | c :: _ =>
    if alpha c then
      match s.dropWhile schemeCh with
      | d :: _ => if isColon d then some ((s.takeWhile schemeCh).map Char.toLower) else none
      | [] => none
    else none

/-- the whole helper (urls.py:98-116).  `join = _urljoin` and `raises` (urlparse raising
ValueError on the base) are parameters; `rel = none` is Python `None`. -/
def makeSafe (allow : List Str) (join : Str → Str → Str) (raises : Str → Bool)
    (base : Str) (rel : Option Str) : Str :=
  let relS := rel.getD []
  if allow.isEmpty then join base relS
  else if base.isEmpty then relS
  else if relS.isEmpty then
    if raises base then []
    else match pyScheme base with
      | none => base
      | some sch => if allow.contains sch then base else []
  else safe2 allow (join base relS)

def allowList : List Str := Gen.Urls.uriSchemes.map String.toList

end FeedVerif.Uri
