/-
M-api — model of the result assembly of `feedparser.parse` (api.py:152-377): which keys the result
carries, how `bozo` and `bozo_exception` are paired, which parsers run and in which order — as a
function of the OUTCOMES of the stages it calls (opening the source, the empty-content probe,
`convert_file_to_utf8`, the strict SAX pass, the loose pass, the JSON pass).  The stages themselves
are the subject of other models (M-enc, M-stream, M-mixin); here they are inputs, and the library
contract "a stage either returns or raises the exception its caller catches" is the trusted part.
Subject of C01 (shape), C08 (bozo pairing), C17 (HTTP glue: `Http`).
-/
namespace FeedVerif.Api

/-- what the stages did in one call -/
structure Stages where
  urlError : Bool          -- `_open_resource` raised URLError
  empty : Bool             -- the one-byte probe read nothing
  encodingKnown : Bool     -- `result["encoding"]` non-empty after convert_file_to_utf8
  jsonType : Bool          -- `result["content-type"]` is application/json or application/feed+json
  convError : Bool         -- convert_file_to_utf8 attached an exception (override / unknown / non-XML media type)
  xmlAvailable : Bool      -- `_XML_AVAILABLE`
  saxFails : Bool          -- the SAX pass raised SAXException (only meaningful when it runs)
  looseEmpty : Bool        -- the loose pass found no entries, no feed data, no version (only meaningful when it runs)
  jsonFails : Bool         -- the JSON pass raised (only meaningful when it runs)
  isUrl : Bool := false           -- the argument is an http(s) URL string: `http.get` runs (http.py:50-78)
  transportFails : Bool := false  -- requests raised RequestException: bozo + exception, empty body
  hasEtag : Bool := false         -- the response carries an ETag header
  hasModified : Bool := false     -- the response carries a non-empty Last-Modified header
deriving DecidableEq, Repr

inductive Exc | url | transport | conv | sax | json
deriving DecidableEq, Repr

inductive Parser | strict | loose | json
deriving DecidableEq, Repr

structure Result where
  keys : List String
  bozo : Bool
  exc : Option Exc
  ran : List Parser        -- parsers constructed, in order
  final : Option Parser    -- the parser whose feeddata / entries are returned
deriving DecidableEq, Repr

def baseKeys : List String := ["bozo", "entries", "feed", "headers"]

/-- api.py:196-240 then `_parse_file_inplace` (api.py:243-377), statement by statement -/
def httpKeys (s : Stages) : List String :=
  if s.isUrl && !s.transportFails then
    -- `result["modified"] = …` on a FeedParserDict is stored under the alias target `updated` (util.py keymap)
    ["href", "status"] ++ (if s.hasEtag then ["etag"] else []) ++ (if s.hasModified then ["updated", "updated_parsed"] else [])
  else []

/-- a failed transfer leaves an empty body behind (http.py:60-63) -/
def isEmpty (s : Stages) : Bool := s.empty || (s.isUrl && s.transportFails)

/-- api.py:196-240 then `_parse_file_inplace` (api.py:243-377), statement by statement -/
def parse (s : Stages) : Result :=
  if s.urlError then
    { keys := baseKeys ++ ["bozo_exception"], bozo := true, exc := some .url, ran := [], final := none }
  else
  let excH : Option Exc := if s.isUrl && s.transportFails then some .transport else none
  if isEmpty s then
    { keys := baseKeys ++ httpKeys s ++ (if excH.isSome then ["bozo_exception"] else []), bozo := excH.isSome, exc := excH, ran := [], final := none }
  else
    -- convert_file_to_utf8: content-type, encoding; maybe bozo
    let keys0 := baseKeys ++ httpKeys s ++ ["content-type", "encoding"]
    let exc0 : Option Exc := if s.convError then some .conv else excH
    let useJson0 := s.jsonType
    let useStrict0 := s.encodingKnown && s.xmlAvailable
    -- strict pass
    let runStrict := useStrict0 && !useJson0
    let strictFailed := runStrict && s.saxFails
    let exc1 : Option Exc := if strictFailed then some .sax else exc0
    let useStrict1 := useStrict0 && !strictFailed
    -- loose pass
    let runLoose := !useStrict1 && !useJson0
    let useJson1 := useJson0 || (runLoose && s.looseEmpty)
    -- JSON pass
    let exc2 : Option Exc := if useJson1 && s.jsonFails then some .json else exc1
    let ran := (if runStrict then [Parser.strict] else []) ++ (if runLoose then [Parser.loose] else []) ++ (if useJson1 then [Parser.json] else [])
    { keys := keys0 ++ ["version", "namespaces"] ++ (if exc2.isSome then ["bozo_exception"] else []),
      bozo := exc2.isSome, exc := exc2, ran := ran, final := ran.getLast? }

end FeedVerif.Api

/-! ### the HTTP glue (http.py:65-78, api.py:224-225, 286-293) -/
namespace FeedVerif.Api

abbrev Hdrs := List (String × String)

/-- dict assignment; the representation keeps one pair per key, newest first (Python dicts compare and look
up without regard to order, and the driver prints them sorted) -/
def dictSet (d : Hdrs) (k v : String) : Hdrs := (k, v) :: d.filter (·.1 != k)
def dictOfLower (lower : String → String) (items : Hdrs) : Hdrs := items.foldl (fun d p => dictSet d (lower p.1) p.2) []
def dictUpdate (d : Hdrs) (other : Hdrs) : Hdrs := other.foldl (fun d p => dictSet d p.1 p.2) d
def dget (d : Hdrs) (k : String) : Option String := (d.find? (·.1 == k)).map (·.2)

/-- `result["headers"]` as the parsers see it: the response's headers lower-cased (http.py:66), then
the caller's `response_headers` lower-cased on top (api.py:224-225) -/
def effectiveHeaders (lower : String → String) (resp caller : Hdrs) : Hdrs :=
  dictUpdate (dictOfLower lower resp) (dictOfLower lower caller)

/-- `result["headers"]` as returned: for EMPTY content `parse` returns before the merge (api.py:219-225) -/
def resultHeaders (lower : String → String) (empty : Bool) (resp caller : Hdrs) : Hdrs :=
  if empty then dictOfLower lower resp else effectiveHeaders lower resp caller

/-- base URI choice (api.py:286-293); `safe2` / `safe1` are `make_safe_absolute_uri` with two / one argument -/
def baseUri (safe2 : String → String → String) (safe1 : String → String) (href contentloc : String) : String :=
  let a := if href.isEmpty then "" else safe2 href contentloc
  if !a.isEmpty then a else
  let b := safe1 contentloc
  if !b.isEmpty then b else href

end FeedVerif.Api
