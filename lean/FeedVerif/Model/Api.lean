/-
M-api — model of the result assembly of `feedparser.parse` (api.py:152-377): which keys the result
carries, how `bozo` and `bozo_exception` are paired, which parsers run and in which order — as a
function of the OUTCOMES of the stages it calls (opening the source, the empty-content probe,
`convert_file_to_utf8`, the strict SAX pass, the loose pass, the JSON pass).  The stages themselves
are the subject of other models (M-enc, M-stream, M-mixin); here they are inputs, and the library
contract "a stage either returns or raises the exception its caller catches" is the trusted part.
Subject of C01 (shape), C08 (bozo pairing), C17 (HTTP glue: `Http`).
-/
namespace FeedVerif.Api

/-- what the stages did in one call -/
structure Stages where
  urlError : Bool          -- `_open_resource` raised URLError
  empty : Bool             -- the one-byte probe read nothing
  encodingKnown : Bool     -- `result["encoding"]` non-empty after convert_file_to_utf8
  jsonType : Bool          -- `result["content-type"]` is application/json or application/feed+json
  convError : Bool         -- convert_file_to_utf8 attached an exception (override / unknown / non-XML media type)
  xmlAvailable : Bool      -- `_XML_AVAILABLE`
  saxFails : Bool          -- the SAX pass raised SAXException (only meaningful when it runs)
  looseEmpty : Bool        -- the loose pass found no entries, no feed data, no version (only meaningful when it runs)
  jsonFails : Bool         -- the JSON pass raised (only meaningful when it runs)
  isUrl : Bool := false           -- the argument is an http(s) URL string: `http.get` runs (http.py:50-78)
  transportFails : Bool := false  -- requests raised RequestException: bozo + exception, empty body
  hasEtag : Bool := false         -- the response carries an ETag header
  hasModified : Bool := false     -- the response carries a non-empty Last-Modified header
deriving DecidableEq, Repr

inductive Exc | url | transport | conv | sax | json
deriving DecidableEq, Repr

inductive Parser | strict | loose | json
deriving DecidableEq, Repr

structure Result where
  keys : List String
  bozo : Bool
  exc : Option Exc
  ran : List Parser        -- parsers constructed, in order
  final : Option Parser    -- the parser whose feeddata / entries are returned
deriving DecidableEq, Repr

def baseKeys : List String := ["bozo", "entries", "feed", "headers"]

/-- api.py:196-240 then `_parse_file_inplace` (api.py:243-377), statement by statement -/
def httpKeys (s : Stages) : List String :=
  if s.isUrl && !s.transportFails then
    ["href", "status"] ++ (if s.hasEtag then ["etag"] else []) ++ (if s.hasModified then ["modified", "modified_parsed"] else [])
  else []

/-- a failed transfer leaves an empty body behind (http.py:60-63) -/
def isEmpty (s : Stages) : Bool := s.empty || (s.isUrl && s.transportFails)

/-- api.py:196-240 then `_parse_file_inplace` (api.py:243-377), statement by statement -/
def parse (s : Stages) : Result :=
  if s.urlError then
    { keys := baseKeys ++ ["bozo_exception"], bozo := true, exc := some .url, ran := [], final := none }
  else
  let excH : Option Exc := if s.isUrl && s.transportFails then some .transport else none
  if isEmpty s then
    { keys := baseKeys ++ httpKeys s ++ (if excH.isSome then ["bozo_exception"] else []), bozo := excH.isSome, exc := excH, ran := [], final := none }
  else
    -- convert_file_to_utf8: content-type, encoding; maybe bozo
    let keys0 := baseKeys ++ httpKeys s ++ ["content-type", "encoding"]
    let exc0 : Option Exc := if s.convError then some .conv else excH
    let useJson0 := s.jsonType
    let useStrict0 := s.encodingKnown && s.xmlAvailable
    -- strict pass
    let runStrict := useStrict0 && !useJson0
    let strictFailed := runStrict && s.saxFails
    let exc1 : Option Exc := if strictFailed then some .sax else exc0
    let useStrict1 := useStrict0 && !strictFailed
    -- loose pass
    let runLoose := !useStrict1 && !useJson0
    let useJson1 := useJson0 || (runLoose && s.looseEmpty)
    -- JSON pass
    let exc2 : Option Exc := if useJson1 && s.jsonFails then some .json else exc1
    let ran := (if runStrict then [Parser.strict] else []) ++ (if runLoose then [Parser.loose] else []) ++ (if useJson1 then [Parser.json] else [])
    { keys := keys0 ++ ["version", "namespaces"] ++ (if exc2.isSome then ["bozo_exception"] else []),
      bozo := exc2.isSome, exc := exc2, ran := ran, final := ran.getLast? }

end FeedVerif.Api
