import FeedVerif.Model.Base
import FeedVerif.Model.Proto
/-! Driver glue for M-base: the real `make_safe_absolute_uri` / `_urljoin` results for the current
step are supplied by the harness as oracle values. -/
namespace FeedVerif.Base
open FeedVerif.Proto

def encSt (s : St) : String :=
  enc s.baseuri ++ " " ++ encOpt s.lang ++ " " ++ toString s.basestack.length ++ " " ++ toString s.langstack.length

def driverStep (s : St) (ws : List String) : St × String :=
  match ws with
  | ["reset", b, l] =>
    match dec b, decOpt l with
    | some b, some l => let s' : St := ⟨b, l, [], []⟩; (s', encSt s')
    | _, _ => (s, "bad-op")
  | ["start", xb, xl, r2, r1] =>
    match decOpt xb, decOpt xl, dec r2, dec r1 with
    | some xb, some xl, some r2, some r1 =>
      let o : Ops := { safe2 := fun _ _ => r2, safe1 := fun _ => r1, join := fun _ r => r }
      let s' := step o s (.start xb xl); (s', encSt s')
    | _, _, _, _ => (s, "bad-op")
  | ["stop"] =>
    let o : Ops := { safe2 := fun _ r => r, safe1 := fun u => u, join := fun _ r => r }
    let s' := step o s .stop; (s', encSt s')
  | _ => (s, "bad-op")

end FeedVerif.Base
