/-
M-base — the xml:base / xml:lang stack discipline of `XMLParserMixin.unknown_starttag` /
`unknown_endtag` (mixin.py:231-254 and 354-362, after the `fix:` commits for the typepad-div
early return and the empty-document-base branch).  `make_safe_absolute_uri` (two- and
one-argument form) and `_urljoin` are parameters (`Ops`).
-/
namespace FeedVerif.Base

structure Ops where
  safe2 : String → String → String    -- make_safe_absolute_uri(base, rel)
  safe1 : String → String             -- make_safe_absolute_uri(uri)
  join  : String → String → String    -- _urljoin(base, rel)

structure St where
  baseuri : String
  lang : Option String
  basestack : List String           -- head = top
  langstack : List (Option String)
deriving DecidableEq, Repr

inductive Ev where
  /-- start tag; `xmlbase` = `attrs_d.get("xml:base", attrs_d.get("base"))`,
      `xmllang` = `attrs_d.get("xml:lang", attrs_d.get("lang"))` -/
  | start (xmlbase : Option String) (xmllang : Option String)
  | stop
deriving Repr

/-- Python `a or b` on strings -/
def pyOr (a b : String) : String := if a ≠ "" then a else b

def newBase (o : Ops) (cur : String) (xb : Option String) : String :=
  let b := pyOr (xb.getD "") cur
  if cur ≠ "" then pyOr (o.safe2 cur b) cur else o.safe1 (o.join cur b)

def newLang (cur : Option String) (xl : Option String) : Option String :=
  match xl with
  | some "" => none        -- xml:lang="" resets
  | some l => some l
  | none => cur            -- inherit

def step (o : Ops) (s : St) : Ev → St
  | .start xb xl =>
    let nb := newBase o s.baseuri xb
    let nl := newLang s.lang xl
    { baseuri := nb, lang := nl, basestack := nb :: s.basestack, langstack := nl :: s.langstack }
  | .stop =>
    let (bs, b) := match s.basestack with
      | [] => ([], s.baseuri)
      | _ :: rest => (rest, match rest with
          | t :: _ => if t ≠ "" then t else s.baseuri
          | [] => s.baseuri)
    let (ls, l) := match s.langstack with
      | [] => ([], s.lang)
      | _ :: rest => (rest, match rest with
          | t :: _ => t
          | [] => s.lang)
    { baseuri := b, lang := l, basestack := bs, langstack := ls }

def run (o : Ops) (s : St) (evs : List Ev) : St := evs.foldl (step o) s

/-- well-nested event lists -/
inductive Balanced : List Ev → Prop where
  | nil : Balanced []
  | wrap (xb xl) (inner rest) : Balanced inner → Balanced rest →
      Balanced (Ev.start xb xl :: inner ++ Ev.stop :: rest)

end FeedVerif.Base
