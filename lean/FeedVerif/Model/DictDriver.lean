import FeedVerif.Model.Dict
import FeedVerif.Model.Proto
/-! Driver glue for M-dict: decode ops, run, print canonical observations. -/
namespace FeedVerif.Dict
open FeedVerif.Proto

def decLink (f : String) : Option Link :=
  match f.splitOn "/" with
  | [r, h] => match decOpt r, decOpt h with
    | some r, some h => some { rel := r, href := h }
    | _, _ => none
  | [r, h, others] =>
    -- further members of the link dict, `k=v;k=v` (literally stored: the parser builds link dicts with the constructor, which does not alias)
    match decOpt r, decOpt h, (others.splitOn ";").mapM (fun kv => match kv.splitOn "=" with
        | [k, v] => (match dec k, dec v with | some k, some v => some (k, v) | _, _ => none)
        | _ => none) with
    | some r, some h, some os => some { rel := r, href := h, other := os }
    | _, _, _ => none
  | _ => none

def decList (f : String) (g : String → Option α) : Option (List α) :=
  if f == "" then some [] else
  (f.splitOn ",").foldr (fun x acc => match g x, acc with
    | some a, some l => some (a :: l)
    | _, _ => none) (some [])

def decVal (f : String) : Option Val :=
  if f.startsWith "s:" then (dec (f.drop 2).toString).map Val.str
  else if f.startsWith "l:" then (decList (f.drop 2).toString decLink).map Val.links
  else if f.startsWith "t:" then (decList (f.drop 2).toString dec).map Val.tags
  else if f == "n:" then some Val.none
  else none

def encLink (l : Link) : String :=
  encOpt l.rel ++ "/" ++ encOpt l.href ++ (if l.other.isEmpty then "" else "/" ++ ";".intercalate (l.other.map fun (k, v) => enc k ++ "=" ++ enc v))

def encVal : Val → String
  | .str s => "s:" ++ enc s
  | .links ls => "l:" ++ ",".intercalate (ls.map encLink)
  | .tags ts => "t:" ++ ",".intercalate (ts.map enc)
  | .none => "n:"

def encErr : Err → String
  | .keyError _ => "KeyError"
  | .typeError => "TypeError"

def encObs : Obs → String
  | .unit => "ok"
  | .res (.ok (v, w)) => "ok " ++ encVal v ++ (if w then " warn" else " nowarn")
  | .res (.error e) => encErr e
  | .bool (.ok b) => if b then "ok True" else "ok False"
  | .bool (.error e) => encErr e
  | .val (.ok v) => "ok " ++ encVal v
  | .val (.error e) => encErr e
  | .attr (.val v w) => "ok " ++ encVal v ++ (if w then " warn" else " nowarn")
  | .attr .attributeError => "AttributeError"
  | .attr .typeError => "TypeError"
  | .attr .classAttr => "classattr"
  | .delErr _ => "KeyError"

def decOp (ws : List String) : Option Op :=
  match ws with
  | ["set", k, v] => match dec k, decVal v with | some k, some v => some (.set k v) | _, _ => none
  | ["getI", k] => (dec k).map .getI
  | ["has", k] => (dec k).map .has
  | ["getD", k, d] => match dec k, decVal d with | some k, some d => some (.getD k d) | _, _ => none
  | ["attr", k] => (dec k).map .attr
  | ["del", k] => (dec k).map .del
  | _ => none

/-- one protocol line: `reset` or an op; returns new store and output line -/
def driverStep (s : Store) (ws : List String) : Store × String :=
  match ws with
  | ["reset"] => ([], "ok")
  | _ => match decOp ws with
    | some op => let (s', o) := stepOp keymap s op; (s', encObs o)
    | none => (s, "bad-op")

end FeedVerif.Dict
