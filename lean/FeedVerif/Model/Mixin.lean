/-
M-mixin (stage 1: the generic machinery) — model of `XMLParserMixin.unknown_starttag`,
`unknown_endtag`, `handle_data`, `push`, `pop`, `_get_context`, `track_namespace` (mixin.py:225-365,
400-407, 449-470, 482-661, 761-772) together with the structural handlers `_start_rss`,
`_start_channel/_end_channel`, `_start_feed/_end_feed`, `_start_item/_end_item` (= entry) of
namespaces/_base.py and the FALLBACK for elements without a dedicated handler (mixin.py:305-320,
334-342) — the subject of C19 and the skeleton C01 / C10 / C11 / C20 hang on.

Domain: event streams in which every element is one of the structural elements above or has no
`_start_*` / `_end_*` handler at all (the handler-name table is regenerated from /repo); anything
else makes `mstep` answer `unmodelled`.  Value-level text repair (`iso-8859-1` → `utf-8` re-decode,
windows-1252 map) and URI joins are parameters (`Ops`).
-/
import FeedVerif.Model.Base
import FeedVerif.Model.Dict
import FeedVerif.Gen.Mixin

namespace FeedVerif.Mixin

abbrev Str := List Char

/-- values stored in result dicts by the modelled part: text, or an attribute dict -/
inductive V
  | s (x : Str)
  | d (kv : List (Str × Str))
  | t (x : Option (List Int))        -- a `*_parsed` value: the time tuple `_parse_date` returned, or None
  | det (kv : List (Str × Option Str)) -- a `*_detail` dict: contentparams (type, language — may be None —, base) + value
  | l (items : List (List (Str × Option Str)))   -- stage 3: the `content` list of an entry (one dict per content element)
  | nil                                -- stage 3: Python's None (`_save("summary", None)` after a mismatched `pop_content`)
  | b (x : Bool)                       -- stage 4: `guidislink`
  | ref (i : Nat)                      -- stage 7: `author_detail` when it IS (the same object as) `authors[i]` of the same dict
deriving DecidableEq, Repr

/-- insertion-ordered dict -/
abbrev D := List (Str × V)

def dset (d : D) (k : Str) (v : V) : D :=
  if d.any (·.1 == k) then d.map (fun p => if p.1 == k then (k, v) else p) else d ++ [(k, v)]

def dget (d : D) (k : Str) : Option V := (d.find? (·.1 == k)).map (·.2)

/-- plain (non-aliasing) ordered string dict: namespaces_in_use, namespacemap, attrs_d -/
def sset (d : List (α × Str)) [BEq α] (k : α) (v : Str) : List (α × Str) :=
  if d.any (·.1 == k) then d.map (fun p => if p.1 == k then (k, v) else p) else d ++ [(k, v)]
def sget (d : List (α × Str)) [BEq α] (k : α) : Option Str := (d.find? (·.1 == k)).map (·.2)

structure Elem where
  name : Str
  expecting : Bool
  pieces : List Str
deriving DecidableEq, Repr

structure Entry where
  d : D := []
  depths : List (Str × Int) := []     -- property_depth_map[entry]
deriving DecidableEq, Repr

/-- `contentparams` while a text construct is open (mixin.py `push_content`) -/
structure CP where
  type : Str
  lang : Option String
  base : String
  base64 : Bool
  src : Option Str := none            -- stage 3: `contentparams["src"]` of a content element
deriving DecidableEq, Repr

/-- everything but the element stack -/
structure Core where
  feed : D := []
  entries : List Entry := []          -- newest first: head = entries[-1]
  version : Str := []
  nsInUse : List (Str × Str) := []
  nsMap : List (Option Str × Str) := []
  infeed : Bool := false
  inentry : Bool := false
  depth : Int := 0
  base : Base.St := ⟨"", none, [], []⟩
  incontent : Bool := false           -- stage 2: a text construct is open (`self.incontent`, 0 or 1 in the model's domain)
  cp : Option CP := none              -- `self.contentparams` (none = the empty dict)
  titleDepth : Int := -1              -- `self.title_depth`
  summaryKey : Option Str := none     -- stage 3: `self._summaryKey`
  hasContent : Bool := false          -- stage 3: `self.hasContent`
  guidislink : Bool := false          -- stage 4: `self.guidislink`
  isentrylink : Bool := false         -- stage 4: `self.isentrylink`
  inauthor : Bool := false            -- stage 7: `self.inauthor`
  incontributor : Bool := false       -- stage 7: `self.incontributor`
  inpublisher : Bool := false         -- stage 7: `self.inpublisher` (itunes:owner)
deriving Repr

structure MSt where
  c : Core := {}
  stack : List Elem := []             -- head = elementstack[-1]
deriving Repr

inductive MEv
  | start (tag : Str) (attrs : List (Str × Str))
  | stop (tag : Str)
  | data (text : Str)
  | ns (pfx : Option Str) (uri : Str)      -- strict back end: startPrefixMapping → track_namespace
  | cref (ref : Str)                       -- stage 6, loose back end: `handle_charref(ref)` for `&#ref;` in character data
  | eref (ref : Str)                       -- stage 6, loose back end: `handle_entityref(ref)` for `&ref;`
deriving Repr

structure Ops where
  base : Base.Ops
  join : Str → Str → Str          -- _urljoin(baseuri or "", uri) for can_be_relative_uri elements
  fix : Str → Str                 -- iso-8859-1→utf-8 re-decode heuristic, then windows-1252 translate
  loose : Bool                    -- which back end's _normalize_attributes
  parseDate : Str → Option (List Int) := fun _ => none     -- `_parse_date` on a non-empty string (M-date, C09)
  -- stage 2 (text constructs): the post-processing steps of `pop()` are parameters
  looksHtml : Str → Bool := fun _ => false                 -- `looks_like_html`
  resolveMarkup : Str → Str → Str → Str := fun _ _ x => x  -- `resolve_relative_uris(output, baseuri, enc, type)` as base, type, text (M-san's resolver, C05 / C13)
  sanitize : Str → Str → Str := fun _ x => x               -- `sanitize_html(output, enc, type)` as type, text (M-san, C03)
  b64 : Str → Option Str := fun _ => none                  -- `base64.decodebytes(...).decode("utf8")`, none when it raises
  decodeEnt : Str → Str → Str := fun _ x => x              -- the back end's `decode_entities` as type-or-"xml", text (identity for the strict one)
  resolveOn : Bool := true                                 -- `self.resolve_relative_uris` (the effective per-call option, C18)
  sanitizeOn : Bool := true                                -- `self.sanitize_html`
  entities : Str → Option Str := fun _ => none             -- stage 6: `self.entities` (the safe entities of the DOCTYPE: M-doctype, C12)
  emailMatch : Str → Option Str := fun _ => none           -- stage 7: `email_pattern.search(author)` → `group(0)`

inductive Outcome
  | ok (s : MSt)
  | unmodelled (why : Str)
deriving Repr

def S (x : String) : Str := x.toList
def lowerS (x : Str) : Str := x.map Char.toLower

def ws (c : Char) : Bool := (9 ≤ c.toNat && c.toNat ≤ 13) || (28 ≤ c.toNat && c.toNat ≤ 32) || c.toNat == 0x85 || c.toNat == 0xa0
def stripS (x : Str) : Str := ((x.dropWhile ws).reverse.dropWhile ws).reverse

/-- `str.replace` -/
def replaceAllF (needle repl : Str) : Nat → Str → Str
  | _, [] => []
  | 0, s => s
  | n + 1, c :: rest =>
    if !needle.isEmpty && needle.isPrefixOf (c :: rest) then repl ++ replaceAllF needle repl n ((c :: rest).drop needle.length)
    else c :: replaceAllF needle repl n rest
def replaceAll (needle repl s : Str) : Str := replaceAllF needle repl (s.length + 1) s

def containsSub (needle : Str) : Str → Bool
  | [] => needle.isEmpty
  | c :: rest => needle.isPrefixOf (c :: rest) || containsSub needle rest

/-! ### tables (regenerated) -/
def matchNs : List (Str × Str) := Gen.Mixin.matchNamespacesL
def hasStart (name : Str) : Bool := Gen.Mixin.startHandlersL.any (· == name)
def hasEnd (name : Str) : Bool := Gen.Mixin.endHandlersL.any (· == name)
def canBeRelativeUri : List Str := Gen.Mixin.canBeRelativeUriL
/-- "simple date elements", recognised by the translator FROM THE SOURCE of their handlers: `_start_X` is
`self.push(K, 1)` and `_end_X` is `value = self.pop(K); self._save(K_parsed, _parse_date(value), overwrite=True)`
(directly, through an alias, or through a one-line delegation).  handler name ↦ (K, K_parsed) -/
def dateKey (h : Str) : Option (Str × Str) := (Gen.Mixin.dateElementsL.find? (·.1 == h)).map (·.2)
/-- "plain text-construct elements", recognised by the translator FROM THE SOURCE of their handlers: `_start_X` is
`self.push_content(K, attrs_d, T, 1)` and `_end_X` is `self.pop_content(K)` (directly, through an alias, or through a one-line
delegation).  handler name ↦ (K, default content type T) -/
def contentKey (h : Str) : Option (Str × Str) := (Gen.Mixin.contentElementsL.find? (·.1 == h)).map (·.2)
/-- the `title` handlers are modelled by hand; the translator lists the handler names that reach `_start_title` / `_end_title`
(directly or through a one-line delegation) and lists NONE when the source of those two no longer has the modelled shape -/
def isTitle (h : Str) : Bool := Gen.Mixin.titleHandlersL.any (· == h)
/-- stage 3: the summary / description / content handlers are modelled by hand; the translator lists, per kind (`description`, `abstract`,
`summary`, `content`, `content_encoded`), the handler names that reach them — and lists none for a kind whose source no longer has the
modelled shape -/
def extKind (h : Str) : Option Str := (Gen.Mixin.handModelledL.find? (·.1 == h)).map (·.2)
/-- stage 4: the link and guid / id handlers are modelled by hand; handler name ↦ kind (`link`, `guid`), listed only while the source of the
handlers of that kind and of the helpers they use still has the modelled shape -/
def lgKind (h : Str) : Option Str := (Gen.Mixin.stage4L.find? (·.1 == h)).map (·.2)
def canContainRelativeUris : List Str := Gen.Mixin.canContainRelativeUrisL
def canContainDangerous : List Str := Gen.Mixin.canContainDangerousMarkupL
def htmlTypes : List Str := Gen.Mixin.htmlTypesL
def keymap : Dict.Keymap := Dict.keymap

/-- `FeedParserDict.__setitem__` key aliasing -/
def canonKey (k : Str) : Str := (Dict.canon keymap (String.ofList k)).toList
def fset (d : D) (k : Str) (v : V) : D := dset d (canonKey k) v

/-! ### track_namespace (mixin.py:449-466) -/
def trackNamespace (s : Core) (pfx : Option Str) (uri0 : Str) : Core :=
  let lower0 := lowerS uri0
  let version :=
    if s.version.isEmpty then
      (if pfx.isNone && lower0 == S "http://my.netscape.com/rdf/simple/0.9/" then S "rss090"
       else if lower0 == S "http://purl.org/rss/1.0/" then S "rss10"
       else if lower0 == S "http://www.w3.org/2005/atom" then S "atom10"
       else s.version)
    else s.version
  let (uri, lower) := if containsSub (S "backend.userland.com/rss") lower0
    then (S "http://backend.userland.com/rss", S "http://backend.userland.com/rss") else (uri0, lower0)
  match sget matchNs lower with
  | some canon => { s with version := version, nsMap := sset s.nsMap pfx (lowerS canon), nsInUse := sset s.nsInUse canon uri }
  | none => { s with version := version, nsInUse := sset s.nsInUse (pfx.getD []) uri }

/-! ### helpers -/
def splitTag (tag : Str) : Str × Str :=
  if tag.contains ':' then (tag.takeWhile (· != ':'), (tag.dropWhile (· != ':')).drop 1) else ([], tag)

/-- canonical handler suffix `prefix_ + suffix` (mixin.py:281-288) -/
def handlerName (s : Core) (tag : Str) : Str :=
  let (p, suf) := splitTag tag
  let p' := (sget s.nsMap (some p)).getD p
  (if p'.isEmpty then [] else p' ++ ['_']) ++ suf

def normAttr (loose : Bool) (kv : Str × Str) : Str × Str :=
  let k := lowerS kv.1
  let v := if k == S "rel" || k == S "type" then lowerS kv.2 else kv.2
  (k, if loose then replaceAll (S "&amp;") (S "&") v else v)

def dictOf (attrs : List (Str × Str)) : List (Str × Str) := attrs.foldl (fun d kv => sset d kv.1 kv.2) []

/-- update `entries[-1]` (nothing to update when there is no entry) -/
def updHead (f : Entry → Entry) : List Entry → List Entry
  | [] => []
  | e :: rest => f e :: rest

/-- context dict selector of `_get_context` restricted to the modelled flags: `entries[-1]` inside an
entry (`inentry` implies `entries ≠ []`, see Props/C01), else the feed -/
def setContext (s : Core) (k : Str) (v : V) : Core :=
  if s.inentry then { s with entries := updHead (fun e => { e with d := fset e.d k v }) s.entries }
  else { s with feed := fset s.feed k v }

/-- `_map_to_standard_prefix(name)` then `attrs_d.get` -/
def getAttribute (s : Core) (attrsD : List (Str × Str)) (name : Str) : Option Str :=
  let (p, suf) := splitTag name
  sget attrsD (if name.contains ':' then ((sget s.nsMap (some p)).getD p) ++ [':'] ++ suf else name)

/-- the `property_depth_map` rule (mixin.py:633-640): store unless the key was already stored from a
shallower element of this entry -/
def writeEntry (element output : Str) (depth : Int) (e : Entry) : Entry :=
  let old := (e.depths.find? (·.1 == element)).map (·.2)
  let write := match old with | none => true | some od => depth ≤ od
  if write then { d := fset e.d element (.s output), depths := (e.depths.filter (·.1 != element)) ++ [(element, depth)] } else e

/-! ### pop (mixin.py:485-661) for the modelled situations (`incontent = 0`, empty contentparams) -/
def pop (o : Ops) (s : MSt) (element : Str) : MSt :=
  match s.stack with
  | [] => s
  | top :: rest =>
    if top.name != element then s else
    let c := s.c
    let output0 := stripS top.pieces.flatten
    if !top.expecting then ⟨c, rest⟩ else
    let output1 := if canBeRelativeUri.contains element && !output0.isEmpty && (element != S "id" || c.guidislink) then o.join c.base.baseuri.toList output0 else output0
    let output := o.fix (o.decodeEnt (S "xml") output1)      -- outside text constructs `contentparams` is empty: `decode_entities` sees the type "xml"
    if element == S "category" || element == S "tags" || element == S "itunes_keywords" then ⟨c, rest⟩ else
    if c.inentry then ⟨{ c with entries := updHead (writeEntry element output c.depth) c.entries }, rest⟩
    else if c.infeed then ⟨{ c with feed := fset c.feed element (.s output) }, rest⟩
    else ⟨c, rest⟩

/-- the value `pop(element)` RETURNS (None on an empty or mismatched stack, mixin.py:485-489) -/
def popValue (o : Ops) (s : MSt) (element : Str) : Option Str :=
  match s.stack with
  | [] => none
  | top :: _ =>
    if top.name != element then none else
    let output0 := stripS top.pieces.flatten
    let output1 := if canBeRelativeUri.contains element && !output0.isEmpty && (element != S "id" || s.c.guidislink) then o.join s.c.base.baseuri.toList output0 else output0
    some (o.fix (o.decodeEnt (S "xml") output1))

def push (s : MSt) (name : Str) (expecting : Bool) : MSt := { s with stack := ⟨name, expecting, []⟩ :: s.stack }

/-! ### stage 2: text constructs — `push_content`, `pop_content`, and `pop()` with content parameters (mixin.py:485-690) -/

def XHTML : Str := S "application/xhtml+xml"

/-- `map_content_type` -/
def mapContentType (t : Str) : Str :=
  let l := lowerS t
  if l == S "text" || l == S "plain" then S "text/plain" else if l == S "html" then S "text/html" else if l == S "xhtml" then XHTML else l

def endsWith (suf x : Str) : Bool := suf.reverse.isPrefixOf x.reverse

/-- `_is_base64` -/
def isBase64 (attrsD : List (Str × Str)) (ty : Str) : Bool :=
  if (sget attrsD (S "mode")).getD [] == S "base64" then true
  else if (S "text/").isPrefixOf ty then false else if endsWith (S "+xml") ty then false else if endsWith (S "/xml") ty then false else true

/-- `push_content(tag, attrs_d, default_content_type, expecting_text)`: the new core and the element to push -/
def pushContent (c : Core) (tag : Str) (attrsD : List (Str × Str)) (defType : Str) (expecting : Bool) : Core × Elem :=
  let lang' : Option String := c.base.lang.map fun l => String.ofList (replaceAll ['_'] ['-'] l.toList)
  let ty := mapContentType ((sget attrsD (S "type")).getD defType)
  let cp : CP := { type := ty, lang := lang', base := c.base.baseuri, base64 := isBase64 attrsD ty }
  ({ c with incontent := true, cp := some cp, base := { c.base with lang := lang' } }, ⟨tag, expecting, []⟩)

/-- the `*_detail` value: the remaining content parameters plus the value -/
def detailKV (cp : Option CP) (ty : Option Str) (out : Str) : List (Str × Option Str) :=
  match cp with
  | some p => [(S "type", ty), (S "language", p.lang.map String.toList), (S "base", some p.base.toList)] ++
      (match p.src with | some x => [(S "src", some x)] | none => []) ++ [(S "value", some out)]
  | none => [(S "value", some out)]
def detailOf (cp : Option CP) (ty : Option Str) (out : Str) : V := .det (detailKV cp ty out)

/-- `entries[-1].setdefault("content", []); entries[-1]["content"].append(contentparams + value)` -/
def appendContent (d : D) (item : List (Str × Option Str)) : D :=
  match dget d (S "content") with
  | some (.l items) => dset d (S "content") (.l (items ++ [item]))
  | _ => dset d (S "content") (.l [item])

/-- what `pop(element)` computes for an element with content parameters: base64, element-level URI, entity decoding, the
plain-text-or-HTML guess of the non-Atom formats, relative-URI resolution and sanitisation of embedded markup (each under its
option and its element table), the text repairs.  Returns the final content type and the output. -/
def cpBase64 (c : Core) : Bool := match c.cp with | some p => p.base64 | none => false

def contentOutput (o : Ops) (c : Core) (element : Str) (out0 : Str) : Option Str × Str :=
  let b64 := cpBase64 c
  let out1 := if b64 then (o.b64 out0).getD out0 else out0
  let out2 := if canBeRelativeUri.contains element && !out1.isEmpty && (element != S "id" || c.guidislink) then o.join c.base.baseuri.toList out1 else out1
  let ty0 : Option Str := c.cp.map (·.type)
  let out3 := if b64 then out2 else o.decodeEnt (ty0.getD (S "xml")) out2
  let ty1 : Option Str := if !(S "atom").isPrefixOf c.version && ty0 == some (S "text/plain") && o.looksHtml out3 then some (S "text/html") else ty0
  let tyv := ty1.getD (S "text/html")
  let htmlish := htmlTypes.contains (mapContentType tyv)
  let out4 := if htmlish && o.resolveOn && canContainRelativeUris.contains element then o.resolveMarkup c.base.baseuri.toList tyv out3 else out3
  let out5 := if htmlish && o.sanitizeOn && canContainDangerous.contains element then o.sanitize tyv out4 else out4
  (ty1, o.fix out5)

/-- the content type `pop()` ends with (after the plain-text-or-HTML guess) -/
def finalType (o : Ops) (c : Core) (element : Str) (out0 : Str) : Option Str := (contentOutput o c element out0).1

/-- `pop(element)` for the open text construct: the returned value (None on an empty / mismatched stack) and the new state -/
def popFull (o : Ops) (s : MSt) (element : Str) : Option Str × MSt :=
  match s.stack with
  | [] => (none, s)
  | top :: rest =>
    if top.name != element then (none, s) else
    let c := s.c
    let out0 := stripS top.pieces.flatten
    if !top.expecting then (some out0, ⟨c, rest⟩) else
    let r := contentOutput o c element out0
    let out := r.2
    if element == S "category" || element == S "tags" || element == S "itunes_keywords" then (some out, ⟨c, rest⟩) else
    if element == S "title" && (-1 < c.titleDepth && c.titleDepth ≤ c.depth) then (some out, ⟨c, rest⟩) else
    let detail := detailOf c.cp r.1 out
    if c.inentry && element == S "content" then
      (some out, ⟨{ c with entries := updHead (fun e => { e with d := appendContent e.d (detailKV c.cp r.1 out) }) c.entries }, rest⟩)
    else if c.inentry then
      let el := if element == S "description" then S "summary" else element
      let es1 := updHead (writeEntry el out c.depth) c.entries
      let es2 := if c.incontent then updHead (fun e => { e with d := fset e.d (el ++ S "_detail") detail }) es1 else es1
      (some out, ⟨{ c with entries := es2 }, rest⟩)
    else if c.infeed then
      let el := if element == S "description" then S "subtitle" else element
      let f1 := fset c.feed el (.s out)
      let f2 := if c.incontent then fset f1 (el ++ S "_detail") detail else f1
      (some out, ⟨{ c with feed := f2 }, rest⟩)
    else (some out, ⟨c, rest⟩)

/-- `pop_content(tag)`: pop, leave the text construct, forget the content parameters -/
def popContent (o : Ops) (s : MSt) (k : Str) : Option Str × MSt :=
  let r := popFull o s k
  (r.1, ⟨{ r.2.c with incontent := false, cp := none }, r.2.stack⟩)

/-! ### unknown_starttag / unknown_endtag / handle_data -/

def toBaseStr (x : Str) : String := String.ofList x

/-- steps of `unknown_starttag` before the dispatch: depth, attribute normalisation, xml:base /
xml:lang, feed language, namespace declarations delivered as attributes; returns the state and `attrs_d` -/
def startPre (o : Ops) (s0 : Core) (tag : Str) (attrs0 : List (Str × Str)) : Core × List (Str × Str) :=
  let attrs := attrs0.map (normAttr o.loose)
  let attrsD := dictOf attrs
  let xb := (sget attrsD (S "xml:base")).orElse fun _ => sget attrsD (S "base")
  let xl := (sget attrsD (S "xml:lang")).orElse fun _ => sget attrsD (S "lang")
  let b' := Base.step o.base s0.base (.start (xb.map toBaseStr) (xl.map toBaseStr))
  let s1 : Core := { s0 with depth := s0.depth + 1, base := b' }
  let s2 := match b'.lang with
    | some l => if !l.isEmpty && (tag == S "feed" || tag == S "rss" || tag == S "rdf:RDF")
        then { s1 with feed := fset s1.feed (S "language") (.s (replaceAll ['_'] ['-'] l.toList)) } else s1
    | none => s1
  let s3 := attrs.foldl (fun st kv =>
      if (S "xmlns:").isPrefixOf kv.1 then trackNamespace st (some (kv.1.drop 6)) kv.2
      else if kv.1 == S "xmlns" then trackNamespace st none kv.2 else st) s2
  (s3, attrsD)

def dropDecls (attrsD : List (Str × Str)) : List (Str × Str) :=
  attrsD.filter fun kv => !(kv.1 == S "xmlns" || (S "xmlns:").isPrefixOf kv.1)

/-- a start handler that is `push_content(…)`; XHTML-typed constructs (whose character data is escaped and whose child elements are
re-serialised) are outside the model's domain -/
def startContent (s3 : Core) (k : Str) (attrsD : List (Str × Str)) (ty : Str) (expecting : Bool) : Except Str (Core × Option Elem) :=
  if (pushContent s3 k attrsD ty expecting).1.cp.map (·.type) == some XHTML then .error (S "inline XHTML content")
  else .ok ((pushContent s3 k attrsD ty expecting).1, some (pushContent s3 k attrsD ty expecting).2)

/-! ### stage 3: summary / description / content (namespaces/_base.py `_start_description`, `_start_abstract`, `_start_summary`,
`_start_content`, `_start_content_encoded` and their end handlers), with `_summaryKey` and `hasContent` -/

/-- the current context dict (`_get_context()` with `insource = inimage = intextinput = 0`) -/
def contextD (c : Core) : D := if c.inentry then (c.entries.head?.map (·.d)).getD [] else c.feed

/-- `self.push_content(k, …)` as a start handler pushing ONE element; XHTML-typed constructs are outside the domain -/
def startContentL (s3 : Core) (k : Str) (attrsD : List (Str × Str)) (ty : Str) (expecting : Bool) : Except Str (Core × List Elem) :=
  match startContent s3 k attrsD ty expecting with
  | .ok (c, some e) => .ok (c, [e])
  | .ok (c, none) => .ok (c, [])
  | .error w => .error w

/-- `_start_content`: `hasContent = 1; push_content("content", attrs_d, "text/plain", 1); src → contentparams["src"]; push("content", 1)`
— TWO elements are pushed; the end handler pops only the upper one -/
def srcOf (attrsD : List (Str × Str)) : Option Str :=
  match sget attrsD (S "src") with | some x => if x.isEmpty then none else some x | none => none

def contentElemCore (c : Core) (attrsD : List (Str × Str)) : Core :=
  let c2 := (pushContent { c with hasContent := true } (S "content") attrsD (S "text/plain") true).1
  { c2 with cp := c2.cp.map fun p => { p with src := srcOf attrsD } }

def startContentElem (c : Core) (attrsD : List (Str × Str)) : Except Str (Core × List Elem) :=
  match startContent { c with hasContent := true } (S "content") attrsD (S "text/plain") true with
  | .ok _ => .ok (contentElemCore c attrsD, [⟨S "content", true, []⟩, ⟨S "content", true, []⟩])
  | .error w => .error w

def startExt (s3 : Core) (kind : Str) (attrsD : List (Str × Str)) : Except Str (Core × List Elem) :=
  -- `"summary" in context and not self.hasContent`: a second description / summary becomes a content element
  let viaContent := (dget (contextD s3) (S "summary")).isSome && !s3.hasContent
  if kind == S "description" then
    if viaContent then startContentElem { s3 with summaryKey := some (S "content") } attrsD
    else startContentL s3 (S "description") attrsD (S "text/html") (s3.infeed || s3.inentry)
  else if kind == S "abstract" then startContentL s3 (S "description") attrsD (S "text/plain") (s3.infeed || s3.inentry)
  else if kind == S "summary" then
    if viaContent then startContentElem { s3 with summaryKey := some (S "content") } attrsD
    else startContentL { s3 with summaryKey := some (S "summary") } (S "summary") attrsD (S "text/plain") true
  else if kind == S "content" then startContentElem s3 attrsD
  else if kind == S "content_encoded" then startContentL { s3 with hasContent := true } (S "content") attrsD (S "text/html") true
  else .error (S "unknown hand-modelled kind")

def applyExt (stack : List Elem) : Except Str (Core × List Elem) → Outcome
  | .ok (c, es) => .ok ⟨c, es ++ stack⟩
  | .error w => .unmodelled w

/-- `context.setdefault(key, value)` (`_save` without overwrite) in the current context -/
def dsetDefault (d : D) (k : Str) (v : V) : D := if (dget d k).isSome then d else dset d k v
def saveDefault (c : Core) (k : Str) (v : V) : Core :=
  if c.inentry then { c with entries := updHead (fun e => { e with d := dsetDefault e.d k v }) c.entries }
  else { c with feed := dsetDefault c.feed k v }

/-- the element an end handler of stage 3 pops, whether it goes through `_end_content`, and whether it clears `_summaryKey` -/
def endPlan (c : Core) (kind : Str) : Str × Bool × Bool :=
  if kind == S "description" || kind == S "abstract" then
    (if c.summaryKey == some (S "content") then (S "content", true, true) else (S "description", false, true))
  else if kind == S "summary" then
    (if c.summaryKey == some (S "content") then (S "content", true, true) else (c.summaryKey.getD (S "summary"), false, true))
  else (S "content", true, false)


/-- the core-only effects of `unknown_endtag` after the handler / pop: leave the base / language scope, depth -/
def endFinish (o : Ops) (c : Core) : Core := { c with base := Base.step o.base c.base .stop, depth := c.depth - 1 }

/-! ### stage 4: link and guid / id (namespaces/_base.py `_start_link`, `_end_link`, `_start_guid`, `_end_guid`; the `link` branches of
`pop()`; `_enforce_href`, `resolve_uri`, `_save`) -/

/-- `[A-Za-z0-9_]` -/
def isWordC (c : Char) : Bool := c.isAlphanum || c == '_'

/-- `re.sub("&([A-Za-z0-9_]+);", r"&\g<1>", s)`: the class excludes `;`, so the greedy run either ends at a `;` or there is no match at this `&` -/
def fixAmpF : Nat → Str → Str
  | _, [] => []
  | 0, s => s
  | n + 1, c :: rest =>
    if c == '&' then
      (match rest.takeWhile isWordC, rest.dropWhile isWordC with
       | r :: run, ';' :: tail => '&' :: (r :: run) ++ fixAmpF n tail
       | _, _ => '&' :: fixAmpF n rest)
    else c :: fixAmpF n rest
def fixAmp (s : Str) : Str := fixAmpF (s.length + 1) s

/-- `attrs_d.setdefault(k, v)` -/
def sdefault (a : List (Str × Str)) (k v : Str) : List (Str × Str) := if (sget a k).isSome then a else a ++ [(k, v)]

/-- `_enforce_href`: the first PRESENT of url / uri / href, if non-empty, becomes `href`; url and uri are dropped -/
def enforceHref (a : List (Str × Str)) : List (Str × Str) :=
  match (sget a (S "url")).orElse fun _ => (sget a (S "uri")).orElse fun _ => sget a (S "href") with
  | some h => if h.isEmpty then a else sset (a.filter fun kv => !(kv.1 == S "url" || kv.1 == S "uri")) (S "href") h
  | none => a

/-- the attribute dict `_start_link` stores: defaults for rel and type, `_enforce_href`, the href resolved against the current base -/
def linkAttrs (o : Ops) (c : Core) (attrsD : List (Str × Str)) : List (Str × Str) :=
  let a1 := sdefault attrsD (S "rel") (S "alternate")
  let a2 := sdefault a1 (S "type") (if sget a1 (S "rel") == some (S "self") then S "application/atom+xml" else S "text/html")
  let a3 := enforceHref a2
  match sget a3 (S "href") with
  | some h => sset a3 (S "href") (o.join c.base.baseuri.toList h)
  | none => a3

/-- replace the current context dict -/
def putContext (c : Core) (d : D) : Core :=
  if c.inentry then { c with entries := updHead (fun e => { e with d := d }) c.entries } else { c with feed := d }

/-- `context.setdefault("links", []); context["links"].append(item)`; none when `links` holds something that is not a list (the real
code raises AttributeError there, which `unknown_starttag` mistakes for a missing handler) -/
def appendLink (d : D) (item : List (Str × Option Str)) : Option D :=
  match dget d (S "links") with
  | some (.l items) => some (dset d (S "links") (.l (items ++ [item])))
  | none => some (dset d (S "links") (.l [item]))
  | some _ => none

def isEntryLink (a : List (Str × Str)) : Bool :=
  sget a (S "rel") == some (S "alternate") && htmlTypes.contains (mapContentType ((sget a (S "type")).getD []))

def startLink (o : Ops) (c : Core) (attrsD : List (Str × Str)) : Except Str (Core × List Elem) :=
  let a := linkAttrs o c attrsD
  let isl := c.isentrylink || isEntryLink a
  match appendLink (contextD c) (a.map fun kv => (kv.1, some kv.2)) with
  | none =>
    -- `links` holds something else (a same-named element of the document): `.append` raises AttributeError inside the handler, which
    -- `unknown_starttag` takes for "no handler" — the fallback then stores the (already completed) attribute dict under `link`
    .ok (putContext { c with isentrylink := isl } (fset (contextD c) (S "link") (.d (dropDecls a))), [])
  | some d1 =>
    match sget a (S "href") with
    | some h => .ok (putContext { c with isentrylink := isl } (if isl then fset d1 (S "link") (.s h) else d1), [])
    | none => .ok (putContext { c with isentrylink := isl } d1, [⟨S "link", c.infeed || c.inentry, []⟩])

/-- Python truthiness of a stored value -/
def truthy : Option V → Bool
  | none => false
  | some (.s x) => !x.isEmpty
  | some (.d kv) => !kv.isEmpty
  | some (.t x) => x.isSome
  | some (.det kv) => !kv.isEmpty
  | some (.l xs) => !xs.isEmpty
  | some .nil => false
  | some (.b x) => x
  | some (.ref _) => true

def lset (d : List (Str × Option Str)) (k : Str) (v : Option Str) : List (Str × Option Str) :=
  if d.any (·.1 == k) then d.map (fun p => if p.1 == k then (k, v) else p) else d ++ [(k, v)]

/-- `link = self._last_item(context, "links"); if link is not None: link["href"] = output` — nothing happens when `links` is not (any
longer) a non-empty list -/
def setLastHref (d : D) (out : Str) : D :=
  match dget d (S "links") with
  | some (.l items) =>
    (match items.reverse with
     | last :: before => dset d (S "links") (.l (before.reverse ++ [lset last (S "href") (some out)]))
     | [] => d)
  | _ => d

/-- `pop("link")` (outside text constructs): the generic output chain, then the `link` branches of the storage section -/
def popLink (o : Ops) (s : MSt) : MSt :=
  match s.stack with
  | [] => s
  | top :: rest =>
    if top.name != S "link" then s else
    if !top.expecting then ⟨s.c, rest⟩ else
    let out := (contentOutput o s.c (S "link") (stripS top.pieces.flatten)).2
    if s.c.inentry then
      let out' := fixAmp (replaceAll (S "&amp;") (S "&") out)
      let d1 := if s.c.isentrylink || !truthy (dget (contextD s.c) (S "link")) then fset (contextD s.c) (S "link") (.s out') else contextD s.c
      ⟨putContext s.c (if out'.isEmpty then d1 else setLastHref d1 out'), rest⟩
    else if s.c.infeed then ⟨{ s.c with feed := setLastHref (fset s.c.feed (S "link") (.s (fixAmp out))) (fixAmp out) }, rest⟩
    else ⟨s.c, rest⟩

/-! #### stage 5: categories and enclosures (`_start_category`, `_end_category`, `_add_tag`, `_start_enclosure`) -/

def falsyO : Option Str → Bool
  | none => true
  | some x => x.isEmpty

def tagItem (term scheme label : Option Str) : List (Str × Option Str) := [(S "term", term), (S "scheme", scheme), (S "label", label)]

/-- `_add_tag(term, scheme, label)`: `tags = context.setdefault("tags", [])`; nothing more when all three are falsy; else append the tag unless
an equal one is there.  (`tags` can only be absent or the parser's own list: the name has handlers, so the no-handler fallback never writes
it and `pop()` returns early for it — the other case is left unchanged here.) -/
def addTag (d : D) (term scheme label : Option Str) : D :=
  match dget d (S "tags") with
  | none =>
    if falsyO term && falsyO scheme && falsyO label then dset d (S "tags") (.l []) else dset d (S "tags") (.l [tagItem term scheme label])
  | some (.l items) =>
    if falsyO term && falsyO scheme && falsyO label then d
    else if items.contains (tagItem term scheme label) then d else dset d (S "tags") (.l (items ++ [tagItem term scheme label]))
  | some _ => d

/-- `_start_category`: term, scheme (or domain), label from the attributes; `_add_tag`; push `category` -/
def startCategory (c : Core) (attrsD : List (Str × Str)) : Core × List Elem :=
  (putContext c (addTag (contextD c) (sget attrsD (S "term")) ((sget attrsD (S "scheme")).orElse fun _ => sget attrsD (S "domain")) (sget attrsD (S "label"))),
   [⟨S "category", true, []⟩])

/-- the `term` of the last tag is falsy (None or empty) -/
def lastTermFalsy (items : List (List (Str × Option Str))) : Bool :=
  match items.reverse with
  | last :: _ => falsyO ((last.find? (·.1 == S "term")).bind (·.2))
  | [] => false

/-- `_end_category` after its pop: nothing for an empty value; the value becomes the term of the last tag when that has none (the tag the
start handler made from scheme / label alone), else a tag of its own -/
def endCategoryD (d : D) (value : Option Str) : D :=
  match value with
  | none => d
  | some v =>
    if v.isEmpty then d else
    match dget d (S "tags") with
    | some (.l items) =>
      if !items.isEmpty && lastTermFalsy items then
        (match items.reverse with
         | last :: before => dset d (S "tags") (.l (before.reverse ++ [lset last (S "term") (some v)]))
         | [] => d)
      else addTag d (some v) none none
    | none => addTag (dset d (S "tags") (.l [])) (some v) none none
    | some _ => d

/-- `_start_enclosure`: `_enforce_href` (NOT resolved), `rel = "enclosure"`, appended to `links`; when `links` is not a list the AttributeError is
taken for "no handler" and the completed attribute dict is stored under `enclosure` -/
def startEnclosure (c : Core) (attrsD : List (Str × Str)) : Core :=
  let a := sset (enforceHref attrsD) (S "rel") (S "enclosure")
  match appendLink (contextD c) (a.map fun kv => (kv.1, some kv.2)) with
  | some d1 => putContext c d1
  | none => putContext c (fset (contextD c) (S "enclosure") (.d (dropDecls a)))


/-! #### stage 7: authors and contributors (`_start_author`, `_end_author`, `_start_name` / `_end_name`, `_start_email` / `_end_email`, `_start_url` / `_end_url`,
`_start_contributor` / `_end_contributor`, `_save_author`, `_save_contributor`, `_sync_author_detail`, `_last_item`) -/

abbrev Item := List (Str × Option Str)

def truthyO : Option Str → Bool
  | some x => !x.isEmpty
  | none => false

def iget (it : Item) (k : Str) : Option Str := (it.find? (·.1 == k)).bind (·.2)

/-- the items of the list the parser keeps under `key`, when it still is a list (`_last_item`'s first test) -/
def listOf (d : D) (key : Str) : Option (List Item) := match dget d key with | some (.l items) => some items | _ => none

/-- `x[-1][k] = v` on the list under `key` (nothing when `_last_item` answers None) -/
def setInLast (d : D) (key k : Str) (v : Option Str) : D :=
  match listOf d key with
  | some items => (match items.reverse with
      | last :: before => dset d key (.l (before.reverse ++ [lset last k v]))
      | [] => d)
  | none => d

/-- `x[i][k] = v` -/
def setInNth (d : D) (key : Str) (i : Nat) (k : Str) (v : Option Str) : D :=
  match listOf d key with
  | some items => dset d key (.l (items.mapIdx fun j it => if j == i then lset it k v else it))
  | none => d

/-- `context.setdefault(key, []); context[key].append({})`; none when the value is not a list (AttributeError inside the handler) -/
def appendEmpty (d : D) (key : Str) : Option D :=
  match dget d key with
  | some (.l items) => some (dset d key (.l (items ++ [[]])))
  | none => some (dset d key (.l [[]]))
  | some _ => none

/-- the string surgery of `_sync_author_detail` around the matched e-mail address -/
def stripAuthor (author email : Str) : Str :=
  let a1 := stripS (replaceAll (S "&lt;&gt;") [] (replaceAll (S "<>") [] (replaceAll (S "()") [] (replaceAll email [] author))))
  let a2 := match a1 with | '(' :: r => r | r => r
  let a3 := if a2.getLast? == some ')' then a2.dropLast else a2
  stripS a3

/-- `_sync_author_detail(key)` on the current context dict (`key` = "author", or "publisher" for webMaster / dc:publisher) -/
def syncKey (o : Ops) (d : D) (key : Str) : D :=
  let lastIdx : Option (Nat × Item) := match listOf d (key ++ ['s']) with
    | some items => (match items.reverse with | last :: _ => some (items.length - 1, last) | [] => none)
    | none => none
  match lastIdx with
  | some (_, last@(_ :: _)) =>
    -- the last author dict has entries: the author string is rebuilt from it
    let name := iget last (S "name"); let email := iget last (S "email")
    if truthyO name && truthyO email then fset d key (.s (name.getD [] ++ S " (" ++ email.getD [] ++ S ")"))
    else if truthyO name then fset d key (.s (name.getD []))
    else if truthyO email then fset d key (.s (email.getD []))
    else d
  | other =>
    -- no author dict yet, or an EMPTY one (the one `_start_author` appended): the author string is taken apart; the dict that receives the parts is that empty
    -- dict itself — which then also becomes `author_detail` when there is none (`.ref`) — or a fresh one
    match dget d key with
    | some (.s author) =>
      if author.isEmpty then d else
      let email : Option Str := o.emailMatch author
      let a' : Str := match email with | some e => stripAuthor author e | none => author
      let d1 := if (!a'.isEmpty || email.isSome) && (dget d (key ++ S "_detail")).isNone then
          (match other with
           | some (i, _) => dset d (key ++ S "_detail") (.ref i)
           | none => dset d (key ++ S "_detail") (.det ((if a'.isEmpty then [] else [(S "name", some a')]) ++ (match email with | some e => [(S "email", some e)] | none => []))))
        else d
      (match other with
       | some (i, _) =>
         let d2 := if a'.isEmpty then d1 else setInNth d1 (key ++ ['s']) i (S "name") (some a')
         (match email with | some e => setInNth d2 (key ++ ['s']) i (S "email") (some e) | none => d2)
       | none => d1)
    | _ => d

def syncAuthor (o : Ops) (d : D) : D := syncKey o d (S "author")

/-- `_save_author(key, value, prefix)`: the detail dict is `prefix_detail`; the re-synchronisation and the `authors` list are those of the AUTHOR whatever the prefix -/
def saveAuthorP (o : Ops) (d : D) (pfx k : Str) (v : Option Str) : D :=
  -- detail = context.setdefault(prefix + "_detail", {}); a non-dict value is replaced by a fresh dict; detail[key] = value
  let dk := pfx ++ S "_detail"
  let d1 := match dget d dk with
    | some (.ref i) => setInNth d (pfx ++ ['s']) i k v
    | some (.det kv) => dset d dk (.det (lset kv k v))
    | some (.d kv) => dset d dk (.det (lset (kv.map fun p => (p.1, some p.2)) k v))
    | _ => dset d dk (.det [(k, v)])
  let d2 := syncAuthor o d1
  -- context.setdefault("authors", [{}]); the last item gets the key
  let d3 := if (dget d2 (S "authors")).isNone then dset d2 (S "authors") (.l [[]]) else d2
  setInLast d3 (S "authors") k v

def saveAuthor (o : Ops) (d : D) (k : Str) (v : Option Str) : D := saveAuthorP o d (S "author") k v

/-- `_save_contributor(key, value)` -/
def saveContributor (d : D) (k : Str) (v : Option Str) : D :=
  let d1 := if (dget d (S "contributors")).isNone then dset d (S "contributors") (.l [[]]) else d
  setInLast d1 (S "contributors") k v

/-- `self.pop(name)` for an element pushed with `expecting_text = 0`: the stripped joined text, nothing stored -/
def popPlain (s : MSt) (el : Str) : Option Str × MSt :=
  match s.stack with
  | top :: rest => if top.name != el then (none, s) else (some (stripS top.pieces.flatten), ⟨s.c, rest⟩)
  | [] => (none, s)

def startAuthorKinds (c : Core) (kind : Str) (attrsD : List (Str × Str)) : Option (Core × List Elem) :=
  if kind == S "author" then
    -- inauthor = 1; push("author", 1); context.setdefault("authors", []); context["authors"].append({}) — when that raises AttributeError the fallback of
    -- unknown_starttag runs AFTER the push: a second push, or the attribute dict stored under `author`
    some (match appendEmpty (contextD c) (S "authors") with
      | some d1 => (putContext { c with inauthor := true } d1, [⟨S "author", true, []⟩])
      | none => if (dropDecls attrsD).isEmpty then ({ c with inauthor := true }, [⟨S "author", true, []⟩, ⟨S "author", true, []⟩])
                else (putContext { c with inauthor := true } (fset (contextD c) (S "author") (.d (dropDecls attrsD))), [⟨S "author", true, []⟩]))
  else if kind == S "contributor" then
    some (match appendEmpty (contextD c) (S "contributors") with
      | some d1 => (putContext { c with incontributor := true } d1, [⟨S "contributor", false, []⟩])
      | none => if (dropDecls attrsD).isEmpty then ({ c with incontributor := true }, [⟨S "contributor", true, []⟩])
                else (putContext { c with incontributor := true } (fset (contextD c) (S "contributor") (.d (dropDecls attrsD))), []))
  else if kind == S "name" then some (c, [⟨S "name", false, []⟩])
  else if kind == S "email" then some (c, [⟨S "email", false, []⟩])
  else if kind == S "url" then some (c, [⟨S "href", true, []⟩])
  else if kind == S "publisher" then some (c, [⟨S "publisher", true, []⟩])      -- `_start_webmaster`: `self.push("publisher", 1)`
  else if kind == S "owner" then some ({ c with inpublisher := true }, [⟨S "publisher", false, []⟩])      -- `_start_itunes_owner`
  else if kind == S "cloud" then some (putContext c (fset (contextD c) (S "cloud") (.d attrsD)), [])      -- `_start_cloud`: `context["cloud"] = FeedParserDict(attrs_d)`
  else none

/-- where `_end_name` / `_end_email` / `_end_url` put their value (`inpublisher` and `intextinput` are never set inside the model's domain) -/
def savePart (o : Ops) (c : Core) (k : Str) (v : Option Str) (allowContributor : Bool := true) : Core :=
  if c.inpublisher && k != S "href" then putContext c (saveAuthorP o (contextD c) (S "publisher") k v)      -- `_end_name` / `_end_email` ask `inpublisher` first; `_end_url` does not
  else if c.inauthor then putContext c (saveAuthor o (contextD c) k v)
  else if c.incontributor && allowContributor then putContext c (saveContributor (contextD c) k v)
  else c

def endAuthorKinds (o : Ops) (s0 : MSt) (kind : Str) : Option MSt :=
  if kind == S "author" then
    let s1 := pop o s0 (S "author")
    some ⟨putContext { s1.c with inauthor := false } (syncAuthor o (contextD s1.c)), s1.stack⟩
  else if kind == S "contributor" then
    let s1 := pop o s0 (S "contributor")
    some ⟨{ s1.c with incontributor := false }, s1.stack⟩
  else if kind == S "name" then
    let r := popPlain s0 (S "name")
    some ⟨savePart o r.2.c (S "name") r.1, r.2.stack⟩
  else if kind == S "email" then
    let r := popPlain s0 (S "email")
    some ⟨savePart o r.2.c (S "email") r.1, r.2.stack⟩
  else if kind == S "url" then
    let s1 := pop o s0 (S "href")
    some ⟨savePart o s1.c (S "href") (popValue o s0 (S "href")), s1.stack⟩
  else if kind == S "publisher" then
    -- `_end_webmaster`: `self.pop("publisher"); self._sync_author_detail("publisher")`
    let s1 := pop o s0 (S "publisher")
    some ⟨putContext s1.c (syncKey o (contextD s1.c) (S "publisher")), s1.stack⟩
  else if kind == S "owner" then
    -- `_end_itunes_owner`: `self.pop("publisher"); self.inpublisher = 0; self._sync_author_detail("publisher")`
    let s1 := pop o s0 (S "publisher")
    some ⟨putContext { s1.c with inpublisher := false } (syncKey o (contextD s1.c) (S "publisher")), s1.stack⟩
  else if kind == S "cloud" then
    -- no `_end_cloud`: `unknown_endtag` falls back to `self.pop("cloud")`
    some (pop o s0 (S "cloud"))
  else if kind == S "generator" then
    -- `_end_generator`: `value = self.pop("generator")`; `generator_detail["name"] = value` when that still is a dict
    let s1 := pop o s0 (S "generator")
    let d := contextD s1.c
    let v := popValue o s0 (S "generator")
    some ⟨putContext s1.c (match dget d (S "generator_detail") with
      | some (.d kv) => dset d (S "generator_detail") (.det (lset (kv.map fun p => (p.1, some p.2)) (S "name") v))
      | some (.det kv) => dset d (S "generator_detail") (.det (lset kv (S "name") v))
      | _ => d), s1.stack⟩
  else none

def startLG (o : Ops) (c : Core) (kind : Str) (attrsD : List (Str × Str)) : Except Str (Core × List Elem) :=
  if kind == S "link" then startLink o c attrsD
  else if kind == S "guid" then
    .ok ({ c with guidislink := ((sget attrsD (S "ispermalink")).getD (S "true") == S "true") }, [⟨S "id", true, []⟩])
  else if kind == S "category" then .ok (startCategory c attrsD)
  else if kind == S "enclosure" then .ok (startEnclosure c attrsD, [])
  else if kind == S "generator" then
    -- `_start_generator`: with attributes, `_enforce_href` and the href resolved; `generator_detail` = the attribute dict; push
    let a := if attrsD.isEmpty then attrsD else
      (match sget (enforceHref attrsD) (S "href") with
       | some h => sset (enforceHref attrsD) (S "href") (o.join c.base.baseuri.toList h)
       | none => enforceHref attrsD)
    .ok (putContext c (fset (contextD c) (S "generator_detail") (.d a)), [⟨S "generator", true, []⟩])
  else match startAuthorKinds c kind attrsD with
  | some r => .ok r
  | none => .error (S "unknown stage-4 kind")

/-- `_end_guid`: `value = self.pop("id"); self._save("guidislink", self.guidislink and "link" not in context); if self.guidislink: self._save("link", value)` -/
def endGuidCore (o : Ops) (s0 : MSt) : Core :=
  let c1 := (pop o s0 (S "id")).c
  let c2 := saveDefault c1 (S "guidislink") (.b (c1.guidislink && (dget (contextD c1) (S "link")).isNone))
  if c1.guidislink then saveDefault c2 (S "link") (match popValue o s0 (S "id") with | some v => .s v | none => .nil) else c2

def endLG (o : Ops) (s0 : MSt) (kind : Str) : Outcome :=
  if kind == S "link" then
    .ok ⟨endFinish o { (popLink o s0).c with isentrylink := false }, (popLink o s0).stack⟩
  else if kind == S "guid" then .ok ⟨endFinish o (endGuidCore o s0), (pop o s0 (S "id")).stack⟩
  else if kind == S "category" then
    .ok ⟨endFinish o (putContext (pop o s0 (S "category")).c (endCategoryD (contextD (pop o s0 (S "category")).c) (popValue o s0 (S "category")))),
         (pop o s0 (S "category")).stack⟩
  else if kind == S "enclosure" then
    -- no `_end_enclosure`: `unknown_endtag` falls back to `self.pop("enclosure")`
    .ok ⟨endFinish o (pop o s0 (S "enclosure")).c, (pop o s0 (S "enclosure")).stack⟩
  else match endAuthorKinds o s0 kind with
  | some s1 => .ok ⟨endFinish o s1.c, s1.stack⟩
  | none => .unmodelled (S "unknown stage-4 kind")

/-- the dispatch of `unknown_starttag` on the stack-free part of the state: structural handler, other
handler (outside the model), or the fallback for elements without a handler (mixin.py:305-320).
Returns the new core and the element to push, if any. -/
def dispatchCore (s3 : Core) (h : Str) (attrsD : List (Str × Str)) : Except Str (Core × Option Elem) :=
  if h == S "rss" then
    .ok (if s3.version.isEmpty || !(S "rss").isPrefixOf s3.version then
      let av := (sget attrsD (S "version")).getD []
      let v := if av == S "0.91" then S "rss091u" else if av == S "0.92" then S "rss092" else if av == S "0.93" then S "rss093"
        else if av == S "0.94" then S "rss094" else if (S "2.").isPrefixOf av then S "rss20" else S "rss"
      ({ s3 with version := v }, none) else (s3, none))
  else if h == S "channel" || h == S "feed" || h == S "item" || h == S "entry" then
    if (sget attrsD (S "lastmod")).isSome || (sget attrsD (S "href")).isSome then .error (S "_cdf_common attributes") else
    if h == S "channel" then .ok ({ s3 with infeed := true }, none)
    else if h == S "feed" then
      .ok (if s3.version.isEmpty then
        let av := sget attrsD (S "version")
        let v := if av == some (S "0.1") then S "atom01" else if av == some (S "0.2") then S "atom02" else if av == some (S "0.3") then S "atom03" else S "atom"
        ({ s3 with infeed := true, version := v }, none) else ({ s3 with infeed := true }, none))
    else
      -- _start_item
      let s5 : Core := { s3 with entries := {} :: s3.entries, inentry := true, titleDepth := -1, guidislink := false }
      let s6 := match getAttribute s5 attrsD (S "rdf:about") with
        | some id => if id.isEmpty then s5 else setContext s5 (S "id") (.s id)
        | none => s5
      .ok (s6, some ⟨S "item", false, []⟩)
  else if (dateKey h).isSome then
    -- a simple date element: `self.push(K, 1)` whatever the attributes
    .ok (s3, (dateKey h).map fun k => ⟨k.1, true, []⟩)
  else if isTitle h then
    -- `_start_title` (svgOK = 0 in the model's domain: no markup inside text constructs)
    startContent s3 (S "title") attrsD (S "text/plain") (s3.infeed || s3.inentry)
  else match contentKey h with
  | some (k, ty) =>
    -- a plain text-construct element: `self.push_content(K, attrs_d, T, 1)`
    startContent s3 k attrsD ty true
  | none =>
  if hasStart h then .error (S "handler _start_" ++ h)
  else
    -- fallback: no handler (namespace declarations do not count as attributes)
    let a := dropDecls attrsD
    if a.isEmpty then .ok (s3, some ⟨h, true, []⟩)
    else .ok (setContext s3 h (.d a), none)

def applyDispatch (stack : List Elem) : Except Str (Core × Option Elem) → Outcome
  | .ok (c, some e) => .ok ⟨c, e :: stack⟩
  | .ok (c, none) => .ok ⟨c, stack⟩
  | .error w => .unmodelled w

def startTag0 (o : Ops) (s0 : MSt) (tag : Str) (attrs0 : List (Str × Str)) : Outcome :=
  let r := startPre o s0.c tag attrs0
  match extKind (handlerName r.1 tag) with
  | some kind => applyExt s0.stack (startExt r.1 kind r.2)
  | none =>
    match lgKind (handlerName r.1 tag) with
    | some kind => applyExt s0.stack (startLG o r.1 kind r.2)
    | none => applyDispatch s0.stack (dispatchCore r.1 (handlerName r.1 tag) r.2)

/-- inside a text construct a start tag is re-serialised into the content (inline markup) instead of being dispatched: outside
the model's domain -/
def startTag (o : Ops) (s0 : MSt) (tag : Str) (attrs0 : List (Str × Str)) : Outcome :=
  if s0.c.incontent then .unmodelled (S "markup inside a text construct") else startTag0 o s0 tag attrs0

/-- the key a text-construct end handler pops: `title` (hand-modelled) or a table element -/
def contentEndKey (h : Str) : Option Str :=
  if isTitle h then some (S "title") else (contentKey h).map (·.1)

/-- `_end_title` after its `pop_content`: `if not value: return`, else `self.title_depth = self.depth` (other text constructs: nothing) -/
def afterTitle (k : Str) (r : Option Str × MSt) : Core :=
  if k == S "title" then (match r.1 with
    | some v => if v.isEmpty then r.2.c else { r.2.c with titleDepth := r.2.c.depth }
    | none => r.2.c) else r.2.c

/-- `_end_content`: `copyToSummary` is decided BEFORE the pop (before the plain-text-or-HTML guess) -/
def copyToSummary (c : Core) (kind : Str) : Bool :=
  (endPlan c kind).2.1 && (match c.cp with
    | some p => mapContentType p.type == S "text/plain" || htmlTypes.contains (mapContentType p.type)
    | none => false)

/-- after the pop: `if copyToSummary: self._save("summary", value)` -/
def endExtSaved (o : Ops) (s0 : MSt) (kind : Str) : Core :=
  if copyToSummary s0.c kind then
    saveDefault (popContent o s0 (endPlan s0.c kind).1).2.c (S "summary")
      (match (popContent o s0 (endPlan s0.c kind).1).1 with | some v => .s v | none => .nil)
  else (popContent o s0 (endPlan s0.c kind).1).2.c

/-- …then `self._summaryKey = None` for the description / summary handlers -/
def endExtCore (o : Ops) (s0 : MSt) (kind : Str) : Core :=
  if (endPlan s0.c kind).2.2 then { endExtSaved o s0 kind with summaryKey := none } else endExtSaved o s0 kind

/-- the end handlers of stage 3.  `pop_content` always leaves the text construct (even when the element on top of the stack is another
one and nothing is popped), so no restriction on the stack is needed here.  (`_end_content` reads `contentparams["type"]`; with EMPTY
content parameters the real code raises inside the handler — `copyToSummary` is totalised to "no copy" there, and
`content_has_params` (Props/C01) proves that branch unreachable: an open text construct always has content parameters.) -/
def endExt (o : Ops) (s0 : MSt) (kind : Str) : Outcome :=
  .ok ⟨endFinish o (endExtCore o s0 kind), (popContent o s0 (endPlan s0.c kind).1).2.stack⟩

/-- the end tag of the open text construct (`incontent`): only ITS OWN end tag is in the model's domain -/
def endContent (o : Ops) (s0 : MSt) (h : Str) : Outcome :=
  match contentEndKey h, s0.stack with
  | some k, top :: _ =>
    if top.name != k then .unmodelled (S "end tag of another element inside a text construct") else
    .ok ⟨endFinish o (afterTitle k (popContent o s0 k)), (popContent o s0 k).2.stack⟩
  | _, _ => .unmodelled (S "end tag of another element inside a text construct")

def endTag0 (o : Ops) (s0 : MSt) (tag : Str) : Outcome :=
  let h := handlerName s0.c tag
  if h == S "channel" || h == S "feed" then .ok ⟨endFinish o { s0.c with infeed := false }, s0.stack⟩
  else if h == S "item" || h == S "entry" then
    let s1 := pop o s0 (S "item")
    .ok ⟨endFinish o { s1.c with inentry := false, hasContent := false }, s1.stack⟩
  else match lgKind h with
  | some kind => endLG o s0 kind
  | none =>
  match dateKey h with
  | some (k, pk) =>
    -- value = self.pop(K); self._save(K_parsed, _parse_date(value), overwrite=True)
    let parsed : Option (List Int) := match popValue o s0 k with
      | none => none
      | some v => if v.isEmpty then none else o.parseDate v
    let s1 := pop o s0 k
    .ok ⟨endFinish o (setContext s1.c pk (.t parsed)), s1.stack⟩
  | none =>
  if hasEnd h then .unmodelled (S "handler _end_" ++ h)
  else
    let s1 := pop o s0 h
    .ok ⟨endFinish o s1.c, s1.stack⟩

def endTag (o : Ops) (s0 : MSt) (tag : Str) : Outcome :=
  if s0.c.incontent then
    (match extKind (handlerName s0.c tag) with
     | some kind => endExt o s0 kind
     | none => endContent o s0 (handlerName s0.c tag))
  else if (contentEndKey (handlerName s0.c tag)).isSome || (extKind (handlerName s0.c tag)).isSome then .unmodelled (S "stray end tag of a text construct")
  else endTag0 o s0 tag

def handleData (s : MSt) (text : Str) : MSt :=
  match s.stack with
  | [] => s
  | top :: rest => { s with stack := { top with pieces := top.pieces ++ [text] } :: rest }

/-! ### stage 6: references as the loose back end delivers them (`handle_charref`, `handle_entityref`, mixin.py:370-407) -/

def hexVal (c : Char) : Option Nat :=
  if '0' ≤ c ∧ c ≤ '9' then some (c.toNat - 48) else if 'a' ≤ c ∧ c ≤ 'f' then some (c.toNat - 87) else none

def parseNat (base : Nat) : Str → Option Nat
  | [] => none
  | cs => cs.foldl (fun acc c => match acc, hexVal c with
      | some a, some d => if d < base then some (a * base + d) else none
      | _, _ => none) (some 0)

/-- the ten references that are kept as text (`&#38;` … — `decode_entities` turns them into named references later) -/
def keptCharrefs : List Str := [S "34", S "38", S "39", S "60", S "62", S "x22", S "x26", S "x27", S "x3c", S "x3e"]

/-- the text `handle_charref(ref)` appends: the reference itself for the ten kept ones, else the character — U+FFFD for surrogates, for values beyond
U+10FFFF and for whatever `int()` refuses (the conversion sits inside the `try`).  (Kept `Option`-valued: always `some`.) -/
def crefText (ref0 : Str) : Option Str :=
  let ref := lowerS ref0
  if keptCharrefs.contains ref then some (S "&#" ++ ref ++ [';']) else
  match (match ref with | 'x' :: h => parseNat 16 h | _ => parseNat 10 ref) with
  | none => some [Char.ofNat 0xFFFD]
  | some c => if c.isValidChar then some [Char.ofNat c] else some [Char.ofNat 0xFFFD]

def name2codepoint (ref : Str) : Option Nat := (Gen.Mixin.name2codepointL.find? (·.1 == ref)).map (·.2)

/-- the text `handle_entityref(ref)` appends: the five predefined names stay references; a DOCTYPE entity gives its replacement text — a replacement
of the form `&#…;` is looked up again AS A NAME (the code re-enters itself with the whole text), which for every table `replace_doctype` builds ends in the
literal `&&#…;;`; an HTML entity name gives its character; anything else stays `&ref;`.  The re-entry is bounded by fuel (entity names never start with `&#`, so
the real recursion is one level deep). -/
def erefTextF (o : Ops) : Nat → Str → Str
  | 0, ref => ['&'] ++ ref ++ [';']
  | n + 1, ref =>
    if ref == S "lt" || ref == S "gt" || ref == S "quot" || ref == S "amp" || ref == S "apos" then ['&'] ++ ref ++ [';']
    else match o.entities ref with
    | some t => if (S "&#").isPrefixOf t && endsWith [';'] t then erefTextF o n t else t
    | none => (match name2codepoint ref with | some c => [Char.ofNat c] | none => ['&'] ++ ref ++ [';'])
def erefText (o : Ops) (ref : Str) : Str := erefTextF o 8 ref

/-- the loose back end's `decode_entities` (parsers/loose.py:50-71): the kept numeric references become named ones; for a content type that does not end in
`xml` the five named references (and `&#x2f;`) are decoded.  `ty` = `contentparams.get("type", "xml")`.  (The strict back end's is the identity.) -/
def looseDecode (ty : Str) (data : Str) : Str :=
  let d1 := [(S "&#60;", S "&lt;"), (S "&#x3c;", S "&lt;"), (S "&#x3C;", S "&lt;"), (S "&#62;", S "&gt;"), (S "&#x3e;", S "&gt;"), (S "&#x3E;", S "&gt;"),
             (S "&#38;", S "&amp;"), (S "&#x26;", S "&amp;"), (S "&#34;", S "&quot;"), (S "&#x22;", S "&quot;"), (S "&#39;", S "&apos;"), (S "&#x27;", S "&apos;")].foldl
            (fun acc p => replaceAll p.1 p.2 acc) data
  if endsWith (S "xml") ty then d1 else
    [(S "&lt;", S "<"), (S "&gt;", S ">"), (S "&amp;", S "&"), (S "&quot;", S "\""), (S "&apos;", S "'"), (S "&#x2f;", S "/"), (S "&#x2F;", S "/")].foldl
      (fun acc p => replaceAll p.1 p.2 acc) d1

def mstep (o : Ops) (s : MSt) : MEv → Outcome
  | .start tag attrs => startTag o s tag attrs
  | .stop tag => endTag o s tag
  | .data t => .ok (handleData s t)
  | .ns p u => .ok ⟨trackNamespace s.c p u, s.stack⟩
  | .cref ref => (match crefText ref with | some t => .ok (handleData s t) | none => .unmodelled (S "malformed character reference"))
  | .eref ref => .ok (handleData s (erefText o ref))

def mrun (o : Ops) : MSt → List MEv → Outcome
  | s, [] => .ok s
  | s, e :: rest =>
    match mstep o s e with
    | .ok s' => mrun o s' rest
    | .unmodelled w => .unmodelled w

end FeedVerif.Mixin
