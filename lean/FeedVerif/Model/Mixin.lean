/-
M-mixin (stage 1: the generic machinery) — model of `XMLParserMixin.unknown_starttag`,
`unknown_endtag`, `handle_data`, `push`, `pop`, `_get_context`, `track_namespace` (mixin.py:225-365,
400-407, 449-470, 482-661, 761-772) together with the structural handlers `_start_rss`,
`_start_channel/_end_channel`, `_start_feed/_end_feed`, `_start_item/_end_item` (= entry) of
namespaces/_base.py and the FALLBACK for elements without a dedicated handler (mixin.py:305-320,
334-342) — the subject of C19 and the skeleton C01 / C10 / C11 / C20 hang on.

Domain: event streams in which every element is one of the structural elements above or has no
`_start_*` / `_end_*` handler at all (the handler-name table is regenerated from /repo); anything
else makes `mstep` answer `unmodelled`.  Value-level text repair (`iso-8859-1` → `utf-8` re-decode,
windows-1252 map) and URI joins are parameters (`Ops`).
-/
import FeedVerif.Model.Base
import FeedVerif.Model.Dict
import FeedVerif.Gen.Mixin

namespace FeedVerif.Mixin

abbrev Str := List Char

/-- values stored in result dicts by the modelled part: text, or an attribute dict -/
inductive V
  | s (x : Str)
  | d (kv : List (Str × Str))
  | t (x : Option (List Int))        -- a `*_parsed` value: the time tuple `_parse_date` returned, or None
deriving DecidableEq, Repr

/-- insertion-ordered dict -/
abbrev D := List (Str × V)

def dset (d : D) (k : Str) (v : V) : D :=
  if d.any (·.1 == k) then d.map (fun p => if p.1 == k then (k, v) else p) else d ++ [(k, v)]

def dget (d : D) (k : Str) : Option V := (d.find? (·.1 == k)).map (·.2)

/-- plain (non-aliasing) ordered string dict: namespaces_in_use, namespacemap, attrs_d -/
def sset (d : List (α × Str)) [BEq α] (k : α) (v : Str) : List (α × Str) :=
  if d.any (·.1 == k) then d.map (fun p => if p.1 == k then (k, v) else p) else d ++ [(k, v)]
def sget (d : List (α × Str)) [BEq α] (k : α) : Option Str := (d.find? (·.1 == k)).map (·.2)

structure Elem where
  name : Str
  expecting : Bool
  pieces : List Str
deriving DecidableEq, Repr

structure Entry where
  d : D := []
  depths : List (Str × Int) := []     -- property_depth_map[entry]
deriving DecidableEq, Repr

/-- everything but the element stack -/
structure Core where
  feed : D := []
  entries : List Entry := []          -- newest first: head = entries[-1]
  version : Str := []
  nsInUse : List (Str × Str) := []
  nsMap : List (Option Str × Str) := []
  infeed : Bool := false
  inentry : Bool := false
  depth : Int := 0
  base : Base.St := ⟨"", none, [], []⟩
deriving Repr

structure MSt where
  c : Core := {}
  stack : List Elem := []             -- head = elementstack[-1]
deriving Repr

inductive MEv
  | start (tag : Str) (attrs : List (Str × Str))
  | stop (tag : Str)
  | data (text : Str)
  | ns (pfx : Option Str) (uri : Str)      -- strict back end: startPrefixMapping → track_namespace
deriving Repr

structure Ops where
  base : Base.Ops
  join : Str → Str → Str          -- _urljoin(baseuri or "", uri) for can_be_relative_uri elements
  fix : Str → Str                 -- iso-8859-1→utf-8 re-decode heuristic, then windows-1252 translate
  loose : Bool                    -- which back end's _normalize_attributes
  parseDate : Str → Option (List Int) := fun _ => none     -- `_parse_date` on a non-empty string (M-date, C09)

inductive Outcome
  | ok (s : MSt)
  | unmodelled (why : Str)
deriving Repr

def S (x : String) : Str := x.toList
def lowerS (x : Str) : Str := x.map Char.toLower

def ws (c : Char) : Bool := (9 ≤ c.toNat && c.toNat ≤ 13) || (28 ≤ c.toNat && c.toNat ≤ 32) || c.toNat == 0x85 || c.toNat == 0xa0
def stripS (x : Str) : Str := ((x.dropWhile ws).reverse.dropWhile ws).reverse

/-- `str.replace` -/
def replaceAllF (needle repl : Str) : Nat → Str → Str
  | _, [] => []
  | 0, s => s
  | n + 1, c :: rest =>
    if !needle.isEmpty && needle.isPrefixOf (c :: rest) then repl ++ replaceAllF needle repl n ((c :: rest).drop needle.length)
    else c :: replaceAllF needle repl n rest
def replaceAll (needle repl s : Str) : Str := replaceAllF needle repl (s.length + 1) s

def containsSub (needle : Str) : Str → Bool
  | [] => needle.isEmpty
  | c :: rest => needle.isPrefixOf (c :: rest) || containsSub needle rest

/-! ### tables (regenerated) -/
def matchNs : List (Str × Str) := Gen.Mixin.matchNamespacesL
def hasStart (name : Str) : Bool := Gen.Mixin.startHandlersL.any (· == name)
def hasEnd (name : Str) : Bool := Gen.Mixin.endHandlersL.any (· == name)
def canBeRelativeUri : List Str := Gen.Mixin.canBeRelativeUriL
/-- "simple date elements", recognised by the translator FROM THE SOURCE of their handlers: `_start_X` is
`self.push(K, 1)` and `_end_X` is `value = self.pop(K); self._save(K_parsed, _parse_date(value), overwrite=True)`
(directly, through an alias, or through a one-line delegation).  handler name ↦ (K, K_parsed) -/
def dateKey (h : Str) : Option (Str × Str) := (Gen.Mixin.dateElementsL.find? (·.1 == h)).map (·.2)
def keymap : Dict.Keymap := Dict.keymap

/-- `FeedParserDict.__setitem__` key aliasing -/
def canonKey (k : Str) : Str := (Dict.canon keymap (String.ofList k)).toList
def fset (d : D) (k : Str) (v : V) : D := dset d (canonKey k) v

/-! ### track_namespace (mixin.py:449-466) -/
def trackNamespace (s : Core) (pfx : Option Str) (uri0 : Str) : Core :=
  let lower0 := lowerS uri0
  let version :=
    if s.version.isEmpty then
      (if pfx.isNone && lower0 == S "http://my.netscape.com/rdf/simple/0.9/" then S "rss090"
       else if lower0 == S "http://purl.org/rss/1.0/" then S "rss10"
       else if lower0 == S "http://www.w3.org/2005/atom" then S "atom10"
       else s.version)
    else s.version
  let (uri, lower) := if containsSub (S "backend.userland.com/rss") lower0
    then (S "http://backend.userland.com/rss", S "http://backend.userland.com/rss") else (uri0, lower0)
  match sget matchNs lower with
  | some canon => { s with version := version, nsMap := sset s.nsMap pfx (lowerS canon), nsInUse := sset s.nsInUse canon uri }
  | none => { s with version := version, nsInUse := sset s.nsInUse (pfx.getD []) uri }

/-! ### helpers -/
def splitTag (tag : Str) : Str × Str :=
  if tag.contains ':' then (tag.takeWhile (· != ':'), (tag.dropWhile (· != ':')).drop 1) else ([], tag)

/-- canonical handler suffix `prefix_ + suffix` (mixin.py:281-288) -/
def handlerName (s : Core) (tag : Str) : Str :=
  let (p, suf) := splitTag tag
  let p' := (sget s.nsMap (some p)).getD p
  (if p'.isEmpty then [] else p' ++ ['_']) ++ suf

def normAttr (loose : Bool) (kv : Str × Str) : Str × Str :=
  let k := lowerS kv.1
  let v := if k == S "rel" || k == S "type" then lowerS kv.2 else kv.2
  (k, if loose then replaceAll (S "&amp;") (S "&") v else v)

def dictOf (attrs : List (Str × Str)) : List (Str × Str) := attrs.foldl (fun d kv => sset d kv.1 kv.2) []

/-- update `entries[-1]` (nothing to update when there is no entry) -/
def updHead (f : Entry → Entry) : List Entry → List Entry
  | [] => []
  | e :: rest => f e :: rest

/-- context dict selector of `_get_context` restricted to the modelled flags: `entries[-1]` inside an
entry (`inentry` implies `entries ≠ []`, see Props/C01), else the feed -/
def setContext (s : Core) (k : Str) (v : V) : Core :=
  if s.inentry then { s with entries := updHead (fun e => { e with d := fset e.d k v }) s.entries }
  else { s with feed := fset s.feed k v }

/-- `_map_to_standard_prefix(name)` then `attrs_d.get` -/
def getAttribute (s : Core) (attrsD : List (Str × Str)) (name : Str) : Option Str :=
  let (p, suf) := splitTag name
  sget attrsD (if name.contains ':' then ((sget s.nsMap (some p)).getD p) ++ [':'] ++ suf else name)

/-- the `property_depth_map` rule (mixin.py:633-640): store unless the key was already stored from a
shallower element of this entry -/
def writeEntry (element output : Str) (depth : Int) (e : Entry) : Entry :=
  let old := (e.depths.find? (·.1 == element)).map (·.2)
  let write := match old with | none => true | some od => depth ≤ od
  if write then { d := fset e.d element (.s output), depths := (e.depths.filter (·.1 != element)) ++ [(element, depth)] } else e

/-! ### pop (mixin.py:485-661) for the modelled situations (`incontent = 0`, empty contentparams) -/
def pop (o : Ops) (s : MSt) (element : Str) : MSt :=
  match s.stack with
  | [] => s
  | top :: rest =>
    if top.name != element then s else
    let c := s.c
    let output0 := stripS top.pieces.flatten
    if !top.expecting then ⟨c, rest⟩ else
    let output1 := if canBeRelativeUri.contains element && !output0.isEmpty && element != S "id" then o.join c.base.baseuri.toList output0 else output0
    let output := o.fix output1
    if element == S "category" || element == S "tags" || element == S "itunes_keywords" then ⟨c, rest⟩ else
    if c.inentry then ⟨{ c with entries := updHead (writeEntry element output c.depth) c.entries }, rest⟩
    else if c.infeed then ⟨{ c with feed := fset c.feed element (.s output) }, rest⟩
    else ⟨c, rest⟩

/-- the value `pop(element)` RETURNS (None on an empty or mismatched stack, mixin.py:485-489) -/
def popValue (o : Ops) (s : MSt) (element : Str) : Option Str :=
  match s.stack with
  | [] => none
  | top :: _ =>
    if top.name != element then none else
    let output0 := stripS top.pieces.flatten
    let output1 := if canBeRelativeUri.contains element && !output0.isEmpty && element != S "id" then o.join s.c.base.baseuri.toList output0 else output0
    some (o.fix output1)

def push (s : MSt) (name : Str) (expecting : Bool) : MSt := { s with stack := ⟨name, expecting, []⟩ :: s.stack }

/-! ### unknown_starttag / unknown_endtag / handle_data -/

def toBaseStr (x : Str) : String := String.ofList x

/-- steps of `unknown_starttag` before the dispatch: depth, attribute normalisation, xml:base /
xml:lang, feed language, namespace declarations delivered as attributes; returns the state and `attrs_d` -/
def startPre (o : Ops) (s0 : Core) (tag : Str) (attrs0 : List (Str × Str)) : Core × List (Str × Str) :=
  let attrs := attrs0.map (normAttr o.loose)
  let attrsD := dictOf attrs
  let xb := (sget attrsD (S "xml:base")).orElse fun _ => sget attrsD (S "base")
  let xl := (sget attrsD (S "xml:lang")).orElse fun _ => sget attrsD (S "lang")
  let b' := Base.step o.base s0.base (.start (xb.map toBaseStr) (xl.map toBaseStr))
  let s1 : Core := { s0 with depth := s0.depth + 1, base := b' }
  let s2 := match b'.lang with
    | some l => if !l.isEmpty && (tag == S "feed" || tag == S "rss" || tag == S "rdf:RDF")
        then { s1 with feed := fset s1.feed (S "language") (.s (replaceAll ['_'] ['-'] l.toList)) } else s1
    | none => s1
  let s3 := attrs.foldl (fun st kv =>
      if (S "xmlns:").isPrefixOf kv.1 then trackNamespace st (some (kv.1.drop 6)) kv.2
      else if kv.1 == S "xmlns" then trackNamespace st none kv.2 else st) s2
  (s3, attrsD)

def dropDecls (attrsD : List (Str × Str)) : List (Str × Str) :=
  attrsD.filter fun kv => !(kv.1 == S "xmlns" || (S "xmlns:").isPrefixOf kv.1)

/-- the dispatch of `unknown_starttag` on the stack-free part of the state: structural handler, other
handler (outside the model), or the fallback for elements without a handler (mixin.py:305-320).
Returns the new core and the element to push, if any. -/
def dispatchCore (s3 : Core) (h : Str) (attrsD : List (Str × Str)) : Except Str (Core × Option Elem) :=
  if h == S "rss" then
    .ok (if s3.version.isEmpty || !(S "rss").isPrefixOf s3.version then
      let av := (sget attrsD (S "version")).getD []
      let v := if av == S "0.91" then S "rss091u" else if av == S "0.92" then S "rss092" else if av == S "0.93" then S "rss093"
        else if av == S "0.94" then S "rss094" else if (S "2.").isPrefixOf av then S "rss20" else S "rss"
      ({ s3 with version := v }, none) else (s3, none))
  else if h == S "channel" || h == S "feed" || h == S "item" || h == S "entry" then
    if (sget attrsD (S "lastmod")).isSome || (sget attrsD (S "href")).isSome then .error (S "_cdf_common attributes") else
    if h == S "channel" then .ok ({ s3 with infeed := true }, none)
    else if h == S "feed" then
      .ok (if s3.version.isEmpty then
        let av := sget attrsD (S "version")
        let v := if av == some (S "0.1") then S "atom01" else if av == some (S "0.2") then S "atom02" else if av == some (S "0.3") then S "atom03" else S "atom"
        ({ s3 with infeed := true, version := v }, none) else ({ s3 with infeed := true }, none))
    else
      -- _start_item
      let s5 : Core := { s3 with entries := {} :: s3.entries, inentry := true }
      let s6 := match getAttribute s5 attrsD (S "rdf:about") with
        | some id => if id.isEmpty then s5 else setContext s5 (S "id") (.s id)
        | none => s5
      .ok (s6, some ⟨S "item", false, []⟩)
  else if (dateKey h).isSome then
    -- a simple date element: `self.push(K, 1)` whatever the attributes
    .ok (s3, (dateKey h).map fun k => ⟨k.1, true, []⟩)
  else if hasStart h then .error (S "handler _start_" ++ h)
  else
    -- fallback: no handler (namespace declarations do not count as attributes)
    let a := dropDecls attrsD
    if a.isEmpty then .ok (s3, some ⟨h, true, []⟩)
    else .ok (setContext s3 h (.d a), none)

def applyDispatch (stack : List Elem) : Except Str (Core × Option Elem) → Outcome
  | .ok (c, some e) => .ok ⟨c, e :: stack⟩
  | .ok (c, none) => .ok ⟨c, stack⟩
  | .error w => .unmodelled w

def startTag (o : Ops) (s0 : MSt) (tag : Str) (attrs0 : List (Str × Str)) : Outcome :=
  let r := startPre o s0.c tag attrs0
  applyDispatch s0.stack (dispatchCore r.1 (handlerName r.1 tag) r.2)

/-- the core-only effects of `unknown_endtag` after the handler / pop: leave the base / language scope, depth -/
def endFinish (o : Ops) (c : Core) : Core := { c with base := Base.step o.base c.base .stop, depth := c.depth - 1 }

def endTag (o : Ops) (s0 : MSt) (tag : Str) : Outcome :=
  let h := handlerName s0.c tag
  if h == S "channel" || h == S "feed" then .ok ⟨endFinish o { s0.c with infeed := false }, s0.stack⟩
  else if h == S "item" || h == S "entry" then
    let s1 := pop o s0 (S "item")
    .ok ⟨endFinish o { s1.c with inentry := false }, s1.stack⟩
  else match dateKey h with
  | some (k, pk) =>
    -- value = self.pop(K); self._save(K_parsed, _parse_date(value), overwrite=True)
    let parsed : Option (List Int) := match popValue o s0 k with
      | none => none
      | some v => if v.isEmpty then none else o.parseDate v
    let s1 := pop o s0 k
    .ok ⟨endFinish o (setContext s1.c pk (.t parsed)), s1.stack⟩
  | none =>
  if hasEnd h then .unmodelled (S "handler _end_" ++ h)
  else
    let s1 := pop o s0 h
    .ok ⟨endFinish o s1.c, s1.stack⟩

def handleData (s : MSt) (text : Str) : MSt :=
  match s.stack with
  | [] => s
  | top :: rest => { s with stack := { top with pieces := top.pieces ++ [text] } :: rest }

def mstep (o : Ops) (s : MSt) : MEv → Outcome
  | .start tag attrs => startTag o s tag attrs
  | .stop tag => endTag o s tag
  | .data t => .ok (handleData s t)
  | .ns p u => .ok ⟨trackNamespace s.c p u, s.stack⟩

def mrun (o : Ops) : MSt → List MEv → Outcome
  | s, [] => .ok s
  | s, e :: rest =>
    match mstep o s e with
    | .ok s' => mrun o s' rest
    | .unmodelled w => .unmodelled w

end FeedVerif.Mixin
