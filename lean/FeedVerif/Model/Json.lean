/-
M-json — complete model of `feedparser/parsers/json.py` (`JSONParser.feed`, `parse_entry`,
`parse_author`, `parse_attachment`), including what happens on JSON of the wrong shape: every Python
exception the code can raise (AttributeError / KeyError / TypeError / ValueError on non-objects,
missing keys, non-strings) is the explicit `failed` outcome — `api.py:365-369` turns it into bozo —
together with the partial data assigned before the failure.  `json.load`, `_parse_date` and
`sanitize_html` are parameters.  Result dicts are `FeedParserDict`s: keys go through the alias table.
-/
import FeedVerif.Model.Dict
import FeedVerif.Gen.Mixin

namespace FeedVerif.Json

inductive JVal
  | null
  | bool (b : Bool)
  | num (n : Int)            -- numbers are only copied or compared, never computed with
  | str (s : String)
  | arr (l : List JVal)
  | obj (kv : List (String × JVal))
deriving Repr

abbrev Tuple := List Int     -- a time tuple as produced by `_parse_date`

/-- values in the result -/
inductive RVal
  | j (v : JVal)                          -- a JSON value stored as it came
  | none                                  -- Python None
  | str (s : String)
  | date (t : Option Tuple)
  | dict (kv : List (String × RVal))      -- FeedParserDict, insertion-ordered
  | list (l : List RVal)
deriving Repr

abbrev RDict := List (String × RVal)

structure Ops where
  parseDate : String → Option Tuple
  sanitize : String → String

structure Out where
  version : Option String := none
  feed : RDict := []
  entries : List RDict := []
  failed : Bool := false
deriving Repr

/-- `FeedParserDict.__setitem__`: alias resolution, then dict assignment (replace in place or append) -/
def rset (d : RDict) (k : String) (v : RVal) : RDict :=
  let k' := Dict.canon Dict.keymap k
  if d.any (·.1 == k') then d.map (fun p => if p.1 == k' then (k', v) else p) else d ++ [(k', v)]

def oget (kv : List (String × JVal)) (k : String) : Option JVal := (kv.find? (·.1 == k)).map (·.2)

/-- is `needle` a substring of `s` (Python `needle in s` for str) -/
def isInfix (needle s : List Char) : Bool :=
  match s with
  | [] => needle.isEmpty
  | c :: rest => needle.isPrefixOf (c :: rest) || isInfix needle rest

/-- Python `key in x` for a JSON value `x`: `some b`, or `none` when it raises TypeError -/
def pyIn (key : String) : JVal → Option Bool
  | .obj kv => some (kv.any (·.1 == key))
  | .str s => some (isInfix key.toList s.toList)
  | .arr l => some (l.any fun v => match v with | .str s => s == key | _ => false)
  | _ => none

/-- Python `x[key]` for a string key: only objects support it -/
def pyItem (key : String) : JVal → Option JVal
  | .obj kv => oget kv key
  | _ => none

/-- Python iteration over a JSON value -/
def pyIter : JVal → Option (List JVal)
  | .arr l => some l
  | .obj kv => some (kv.map fun p => .str p.1)
  | .str s => some (s.toList.map fun c => .str c.toString)
  | _ => none

/-! the three tables are regenerated from /repo (`JSONParser.VERSIONS / FEED_FIELDS / ITEM_FIELDS`) -/
def VERSIONS : List (String × String) := Gen.Mixin.jsonVersions
def FEED_FIELDS : List (String × String) := Gen.Mixin.jsonFeedFields
def ITEM_FIELDS : List (String × String) := Gen.Mixin.jsonItemFields

/-- `for src, dst in FIELDS: if src in e: entry[dst] = e[src]` -/
def copyFields (fields : List (String × String)) (e : JVal) (d : RDict) : Option RDict :=
  fields.foldlM (fun d (p : String × String) =>
    match pyIn p.1 e with
    | none => none
    | some false => some d
    | some true => (pyItem p.1 e).map fun v => rset d p.2 (.j v)) d

/-- `parse_author(parent, dest)` (json.py:121-129): returns `dest` as far as it was filled and whether the
call returned normally (`dest["author_detail"]` is assigned BEFORE anything can raise; the detail dict is
aliased, so later additions to it show through) -/
def parseAuthor (parent : JVal) (dest : RDict) : RDict × Bool :=
  let dest1 := rset dest "author_detail" (.dict [])
  match pyIn "name" parent with
  | none => (dest1, false)
  | some hasName =>
    let nameR : Option (Option JVal) := if hasName then (pyItem "name" parent).map some else some none
    match nameR with
    | none => (dest1, false)
    | some name =>
      let detail0 : RDict := match name with | some n => [("name", .j n)] | none => []
      let dest2 := match name with
        | some n => rset (rset dest1 "author" (.j n)) "author_detail" (.dict detail0)
        | none => dest1
      match pyIn "url" parent with
      | none => (dest2, false)
      | some false => (dest2, true)
      | some true =>
        match pyItem "url" parent with
        | some (.str u) =>
          let detail := if u.startsWith "mailto:" then rset detail0 "email" (.str (u.drop 7).toString) else rset detail0 "href" (.str u)
          (rset dest2 "author_detail" (.dict detail), true)
        | _ => (dest2, false)        -- not subscriptable / `.startswith` on a non-string

/-- `parse_attachment(attachment)` (json.py:131-139) -/
def parseAttachment (a : JVal) : Option RVal :=
  match pyItem "url" a, pyItem "mime_type" a with
  | some u, some m =>
    let enc : RDict := rset (rset (rset [] "rel" (.str "enclosure")) "href" (.j u)) "type" (.j m)
    match pyIn "size_in_bytes" a with
    | some true => (pyItem "size_in_bytes" a).map fun s => .dict (rset enc "length" (.j s))
    | some false => some (.dict enc)
    | none => none
  | _, _ => none

def dateOf (o : Ops) : JVal → Option Tuple
  | .str s => if s.isEmpty then none else o.parseDate s
  | _ => none           -- falsy → None; other non-strings: every handler raises, all swallowed → None

/-- `parse_entry(e)` (json.py:78-119); `none` = raises -/
def parseEntry (o : Ops) (e : JVal) : Option RDict :=
  match copyFields ITEM_FIELDS e [] with
  | none => none
  | some d0 =>
    -- content_text / content_html
    let d1 : Option RDict :=
      match pyIn "content_text" e with
      | none => none
      | some true => (pyItem "content_text" e).map fun v => rset d0 "content" (.dict [("value", .j v), ("type", .str "text")])
      | some false =>
        match pyIn "content_html" e with
        | none => none
        | some true =>
          match pyItem "content_html" e with
          | some (.str h) => some (rset d0 "content" (.dict [("value", .str (o.sanitize h)), ("type", .str "html")]))
          | _ => none
        | some false => some d0
    match d1 with
    | none => none
    | some d1 =>
    let dateStep (d : RDict) (src dst dstParsed : String) : Option RDict :=
      match pyIn src e with
      | none => none
      | some false => some d
      | some true => (pyItem src e).map fun v => rset (rset d dst (.j v)) dstParsed (.date (dateOf o v))
    match dateStep d1 "date_published" "published" "published_parsed" with
    | none => none
    | some d2 =>
    match dateStep d2 "date_modified" "updated" "updated_parsed" with
    | none => none
    | some d3 =>
    let d4 : Option RDict :=
      match pyIn "tags" e with
      | none => none
      | some false => some d3
      | some true =>
        match (pyItem "tags" e).bind pyIter with
        | none => none
        | some terms => some (rset d3 "tags" (.list (terms.map fun t => .dict [("term", .j t), ("scheme", .none), ("label", .none)])))
    match d4 with
    | none => none
    | some d4 =>
    let d5 : Option RDict :=
      match pyIn "author" e with
      | none => none
      | some false => some d4
      | some true => (pyItem "author" e).bind fun a => let r := parseAuthor a d4; if r.2 then some r.1 else none
    match d5 with
    | none => none
    | some d5 =>
      match pyIn "attachments" e with
      | none => none
      | some false => some d5
      | some true =>
        match (pyItem "attachments" e).bind pyIter with
        | none => none
        | some as =>
          match as.mapM parseAttachment with
          | none => none
          | some encs =>
            -- entry.setdefault("links", []).extend(...): "links" is never set before in parse_entry
            some (d5 ++ [("links", .list encs)])

/-- `JSONParser.feed(file)` after `json.load` (json.py:63-76) -/
def feed (o : Ops) (data : JVal) : Out :=
  -- data.get("version", ""): only objects have .get
  match data with
  | .obj kv =>
    let v := (oget kv "version").getD (.str "")
    match (match v with | .str s => (VERSIONS.find? (·.1 == s)).map (·.2) | _ => none) with
    | none => { failed := true }
    | some ver =>
      match copyFields FEED_FIELDS data [] with
      | none => { version := some ver, failed := true }
      | some f0 =>
        let f1 : RDict × Bool := match oget kv "author" with
          | none => (f0, true)
          | some a => parseAuthor a f0
        match f1 with
        | (f1, false) => { version := some ver, feed := f1, failed := true }
        | (f1, true) =>
          match (oget kv "items").bind pyIter with
          | none => { version := some ver, feed := f1, failed := true }
          | some items =>
            match items.mapM (parseEntry o) with
            | none => { version := some ver, feed := f1, failed := true }
            | some es => { version := some ver, feed := f1, entries := es }
  | _ => { failed := true }

end FeedVerif.Json
