import FeedVerif.Model.Json
import FeedVerif.Model.Proto
/-!
Driver glue for M-json.  `json feed <tokens…>`: the JSON value in prefix notation —
`n` null, `t` / `f`, `i<int>`, `s<hexfield>`, `a<count>` elements…, `o<count>` (key-hexfield value)….
Dates are parsed by the REAL `_parse_date` on the Python side and passed as a table
`D<hexfield>=<tuple|->` before the value; `sanitize_html` likewise as `H<hexfield>=<hexfield>`.
-/
namespace FeedVerif.Json
open FeedVerif.Proto

partial def parseVal : List String → Option (JVal × List String)
  | [] => none
  | tok :: rest =>
    if tok == "n" then some (.null, rest)
    else if tok == "t" then some (.bool true, rest)
    else if tok == "f" then some (.bool false, rest)
    else if tok.startsWith "i" then (parseInt (tok.drop 1).toString).map fun n => (.num n, rest)
    else if tok.startsWith "s" then (dec (tok.drop 1).toString).map fun s => (.str s, rest)
    else if tok.startsWith "a" then
      match (tok.drop 1).toString.toNat? with
      | none => none
      | some n =>
        let rec go (k : Nat) (acc : List JVal) (r : List String) : Option (List JVal × List String) :=
          if k == 0 then some (acc.reverse, r) else
          match parseVal r with
          | none => none
          | some (v, r') => go (k - 1) (v :: acc) r'
        (go n [] rest).map fun (l, r) => (.arr l, r)
    else if tok.startsWith "o" then
      match (tok.drop 1).toString.toNat? with
      | none => none
      | some n =>
        let rec goO (k : Nat) (acc : List (String × JVal)) (r : List String) : Option (List (String × JVal) × List String) :=
          if k == 0 then some (acc.reverse, r) else
          match r with
          | [] => none
          | kf :: r1 =>
            match dec kf, parseVal r1 with
            | some key, some (v, r') => goO (k - 1) ((key, v) :: acc) r'
            | _, _ => none
        (goO n [] rest).map fun (l, r) => (.obj l, r)
    else none

partial def showJ : JVal → String
  | .null => "n"
  | .bool true => "t"
  | .bool false => "f"
  | .num n => "i" ++ toString n
  | .str s => "s" ++ enc s
  | .arr l => " ".intercalate (("a" ++ toString l.length) :: l.map showJ)
  | .obj kv => " ".intercalate (("o" ++ toString kv.length) :: kv.map fun p => enc p.1 ++ " " ++ showJ p.2)

partial def showR : RVal → String
  | .j v => "J(" ++ showJ v ++ ")"
  | .none => "None"
  | .str s => "S" ++ enc s
  | .date none => "D-"
  | .date (some t) => "D" ++ ",".intercalate (t.map toString)
  | .dict kv => "{" ++ ";".intercalate (kv.map fun p => enc p.1 ++ "=" ++ showR p.2) ++ "}"
  | .list l => "[" ++ ";".intercalate (l.map showR) ++ "]"

def showOut (o : Out) : String :=
  (match o.version with | none => "-" | some v => v) ++ "|" ++ (if o.failed then "1" else "0") ++ "|" ++ showR (.dict o.feed) ++ "|" ++
    showR (.list (o.entries.map .dict))

def driverStep (ws : List String) : String :=
  match ws with
  | "feed" :: rest =>
    -- leading D… / H… table entries
    let tabs := rest.takeWhile fun t => t.startsWith "D" || t.startsWith "H"
    let toks := rest.dropWhile fun t => t.startsWith "D" || t.startsWith "H"
    let dates : List (String × Option Tuple) := tabs.filterMap fun t =>
      if t.startsWith "D" then
        match (t.drop 1).toString.splitOn "=" with
        | [k, v] => (dec k).map fun key => (key, if v == "-" then none else (v.splitOn ",").mapM parseInt)
        | _ => none
      else none
    let sans : List (String × String) := tabs.filterMap fun t =>
      if t.startsWith "H" then
        match (t.drop 1).toString.splitOn "=" with
        | [k, v] => match dec k, dec v with | some a, some b => some (a, b) | _, _ => none
        | _ => none
      else none
    let ops : Ops := { parseDate := fun s => ((dates.find? (·.1 == s)).map (·.2)).getD none,
                       sanitize := fun s => ((sans.find? (·.1 == s)).map (·.2)).getD s }
    match parseVal toks with
    | some (v, []) => showOut (feed ops v)
    | _ => "bad-op"
  | _ => "bad-op"

end FeedVerif.Json
