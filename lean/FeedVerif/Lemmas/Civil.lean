/- Correctness of the civil arithmetic (ported from design-time spikes A.3a / A.3b). -/
import FeedVerif.Model.Civil
namespace FeedVerif.Civil

theorem dby_decomp (a b c d : Nat) (hb : b ≤ 3) (hc : c ≤ 24) (hd : d ≤ 3) :
    dby (400*a + 100*b + 4*c + d + 1) = 146097*a + 36524*b + 1461*c + 365*d := by
  unfold dby; omega

theorem leap_iff (y : Nat) : isLeap y = true ↔ (y % 4 = 0 ∧ (y % 100 ≠ 0 ∨ y % 400 = 0)) := by
  simp [isLeap]

/-- year / day-of-year part of Python's `_ord2ymd`, on explicit quotients -/
def yearOf (a b c e : Nat) : Nat :=
  if e = 4 ∨ b = 4 then 400*a + 100*b + 4*c + e + 1 - 1 else 400*a + 100*b + 4*c + e + 1
def doyOf (b e u : Nat) : Nat := if e = 4 ∨ b = 4 then 365 else u

theorem year_doy_digits (m a r1 b r2 c r3 e u : Nat)
    (h1 : m = 146097*a + r1) (h1' : r1 < 146097)
    (h2 : r1 = 36524*b + r2) (h2' : r2 < 36524)
    (h3 : r2 = 1461*c + r3) (h3' : r3 < 1461)
    (h4 : r3 = 365*e + u) (h4' : u < 365) :
    dby (yearOf a b c e) + doyOf b e u + 1 = m + 1 ∧ doyOf b e u < yearLen (yearOf a b c e) ∧ 1 ≤ yearOf a b c e := by
  have hb : b ≤ 4 := by omega
  have hc : c ≤ 24 := by omega
  have he : e ≤ 4 := by omega
  unfold yearOf doyOf
  by_cases hb4 : b = 4
  · -- last day of a 400-year cycle
    subst hb4
    have : r2 = 0 := by omega
    have : c = 0 := by omega
    have : e = 0 := by omega
    have : u = 0 := by omega
    subst_vars
    simp only [or_true, ↓reduceIte]
    have hy : 400 * a + 100 * 4 + 4 * 0 + 0 + 1 - 1 = 400*a + 100*3 + 4*24 + 3 + 1 := by omega
    rw [hy, dby_decomp a 3 24 3 (by omega) (by omega) (by omega)]
    refine ⟨by omega, ?_, by omega⟩
    have : isLeap (400*a + 100*3 + 4*24 + 3 + 1) = true := by rw [leap_iff]; omega
    simp [yearLen, this]
  · have hb3 : b ≤ 3 := by omega
    by_cases he4 : e = 4
    · subst he4
      have hu : u = 0 := by omega
      have hc23 : c ≤ 23 := by omega
      simp only [true_or, ↓reduceIte]
      have hy : 400 * a + 100 * b + 4 * c + 4 + 1 - 1 = 400*a + 100*b + 4*c + 3 + 1 := by omega
      rw [hy, dby_decomp a b c 3 hb3 hc (by omega)]
      refine ⟨by omega, ?_, by omega⟩
      have : isLeap (400*a + 100*b + 4*c + 3 + 1) = true := by rw [leap_iff]; omega
      simp [yearLen, this]
    · have he3 : e ≤ 3 := by omega
      have hn : ¬(e = 4 ∨ b = 4) := by omega
      simp only [hn, ↓reduceIte]
      rw [dby_decomp a b c e hb3 hc he3]
      refine ⟨by omega, ?_, by omega⟩
      unfold yearLen; split <;> omega




def mdOK (leap : Bool) (n : Nat) : Bool :=
  let (m, d) := monthDay leap n
  dbmL leap m + d == n + 1 && 1 ≤ m && m ≤ 12 && 1 ≤ d && d ≤ dim leap m

theorem monthDay_table : (List.range 366).all (fun n => mdOK true n) = true ∧
    (List.range 365).all (fun n => mdOK false n) = true := by decide +kernel

theorem monthDay_spec (leap : Bool) (n : Nat) (h : n < (if leap then 366 else 365)) :
    dbmL leap (monthDay leap n).1 + (monthDay leap n).2 = n + 1 := by
  have ht := monthDay_table
  cases leap
  · have := List.all_eq_true.mp ht.2 n (by simp at h; simpa using h)
    unfold mdOK at this
    simp only [Bool.and_eq_true, beq_iff_eq, decide_eq_true_eq] at this
    exact this.1.1.1.1
  · have := List.all_eq_true.mp ht.1 n (by simp at h; simpa using h)
    unfold mdOK at this
    simp only [Bool.and_eq_true, beq_iff_eq, decide_eq_true_eq] at this
    exact this.1.1.1.1

theorem leap_digits (a b c e : Nat) (hb : b ≤ 3) (hc : c ≤ 24) (he : e ≤ 3) :
    isLeap (400*a + 100*b + 4*c + e + 1) = (e == 3 && (c != 24 || b == 3)) := by
  cases h : isLeap (400*a + 100*b + 4*c + e + 1)
  · have h' : ¬ (isLeap (400*a + 100*b + 4*c + e + 1) = true) := by simp [h]
    rw [leap_iff] at h'
    symm
    simp only [Bool.and_eq_false_iff, beq_eq_false_iff_ne, ne_eq, Bool.or_eq_false_iff, bne_eq_false_iff_eq]
    omega
  · rw [leap_iff] at h
    symm
    simp only [Bool.and_eq_true, beq_iff_eq, Bool.or_eq_true, bne_iff_ne, ne_eq]
    omega

/-- every ordinal ≥ 1 maps to a civil date whose ordinal it is (the direction needed for
    "every instant × offset"). -/
theorem ymd2ord_ord2ymd (n : Nat) (hn : 1 ≤ n) :
    ymd2ord (ord2ymd n).1 (ord2ymd n).2.1 (ord2ymd n).2.2 = n := by
  unfold ord2ymd
  simp only
  generalize hm : n - 1 = m
  have h1 := (Nat.div_add_mod m 146097).symm
  have h1' := Nat.mod_lt m (by omega : 146097 > 0)
  generalize ha : m / 146097 = a at h1
  generalize hr1 : m % 146097 = r1 at h1 h1'
  have h2 := (Nat.div_add_mod r1 36524).symm
  have h2' := Nat.mod_lt r1 (by omega : 36524 > 0)
  generalize hb : r1 / 36524 = b at h2
  generalize hr2 : r1 % 36524 = r2 at h2 h2'
  have h3 := (Nat.div_add_mod r2 1461).symm
  have h3' := Nat.mod_lt r2 (by omega : 1461 > 0)
  generalize hc : r2 / 1461 = c at h3
  generalize hr3 : r2 % 1461 = r3 at h3 h3'
  have h4 := (Nat.div_add_mod r3 365).symm
  have h4' := Nat.mod_lt r3 (by omega : 365 > 0)
  generalize he : r3 / 365 = e at h4
  generalize hu : r3 % 365 = u at h4 h4'
  have key := year_doy_digits m a r1 b r2 c r3 e u h1 h1' h2 h2' h3 h3' h4 h4'
  unfold yearOf doyOf at key
  by_cases hcase : e = 4 ∨ b = 4
  · simp only [hcase, ↓reduceIte] at key ⊢
    have hy : 400 * a + 100 * b + 4 * c + e + 1 - 1 = 400 * a + 100 * b + 4 * c + e := by omega
    rw [hy] at key ⊢
    obtain ⟨k1, k2, _⟩ := key
    unfold ymd2ord
    have hl : isLeap (400 * a + 100 * b + 4 * c + e) = true := by
      unfold yearLen at k2; split at k2 <;> first | assumption | omega
    rw [hl]
    have : dbmL true 12 = 335 := by decide
    rw [this]
    omega
  · simp only [hcase, ↓reduceIte] at key ⊢
    obtain ⟨k1, k2, _⟩ := key
    have hb3 : b ≤ 3 := by omega
    have hc24 : c ≤ 24 := by omega
    have he3 : e ≤ 3 := by omega
    have hl := leap_digits a b c e hb3 hc24 he3
    unfold ymd2ord
    rw [hl]
    have hu' : u < (if (e == 3 && (c != 24 || b == 3)) then 366 else 365) := by
      split <;> omega
    have := monthDay_spec _ u hu'
    omega




end FeedVerif.Civil
