/- Helper lemmas for M-uri (ported from the design-time spike A.4). -/
import FeedVerif.Model.Uri
namespace FeedVerif.Uri
open List

theorem takeWhile_append_of_all {p : Char → Bool} (a b : Str) (h : a.all p = true) :
    (a ++ b).takeWhile p = a ++ b.takeWhile p := by
  induction a with
  | nil => rfl
  | cons x xs ih =>
    simp only [List.all_cons, Bool.and_eq_true] at h
    simp [List.takeWhile_cons, h.1, ih h.2]

theorem dropWhile_append_of_all {p : Char → Bool} (a b : Str) (h : a.all p = true) :
    (a ++ b).dropWhile p = b.dropWhile p := by
  induction a with
  | nil => rfl
  | cons x xs ih =>
    simp only [List.all_cons, Bool.and_eq_true] at h
    simp [List.dropWhile_cons, h.1, ih h.2]




/-! main theorem -/

theorem takeWhile_all (p : Char → Bool) (s : Str) : (s.takeWhile p).all p = true := by
  induction s with
  | nil => rfl
  | cons c r ih =>
    by_cases h : p c = true
    · simp [List.takeWhile_cons, h, ih]
    · simp [List.takeWhile_cons, h]

theorem dropWhile_head (p : Char → Bool) (s : Str) (c : Char) (r : Str)
    (h : s.dropWhile p = c :: r) : p c = false := by
  induction s with
  | nil => simp at h
  | cons x xs ih =>
    by_cases hx : p x = true
    · simp [List.dropWhile_cons, hx] at h; exact ih h
    · simp [List.dropWhile_cons, hx] at h
      obtain ⟨rfl, _⟩ := h
      simpa using hx

theorem takeWhile_append_dropWhile' (p : Char → Bool) (s : Str) :
    s = s.takeWhile p ++ s.dropWhile p := by simp

/-- dropping a `p`-prefix `w` then anything not starting with `p` -/
theorem dropWhile_prefix (p : Char → Bool) (w t : Str) (hw : w.all p = true)
    (ht : ∀ c r, t = c :: r → p c = false) : (w ++ t).dropWhile p = t := by
  rw [dropWhile_append_of_all w t hw]
  cases t with
  | nil => rfl
  | cons c r => simp [List.dropWhile_cons, ht c r rfl]



/-! ### rstrip facts -/

theorem rstrip_append_cons (p : Char → Bool) (x : Str) (c : Char) (y : Str) (hc : p c = false) :
    rstrip p (x ++ c :: y) = x ++ c :: rstrip p y := by
  unfold rstrip
  simp only [reverse_append, reverse_cons, append_assoc, singleton_append]
  rw [dropWhile_append]
  by_cases hy : (dropWhile p y.reverse).isEmpty = true
  · simp only [hy, ↓reduceIte]
    have : dropWhile p y.reverse = [] := by simpa using hy
    simp [this, dropWhile_cons, hc]
  · simp only [hy, Bool.false_eq_true, ↓reduceIte]
    simp

theorem rstrip_decomp (p : Char → Bool) (s : Str) :
    ∃ t, s = rstrip p s ++ t ∧ t.all p = true := by
  refine ⟨(s.reverse.takeWhile p).reverse, ?_, ?_⟩
  · unfold rstrip
    rw [← reverse_append, takeWhile_append_dropWhile, reverse_reverse]
  · have := takeWhile_all p s.reverse
    simp only [all_eq_true] at this ⊢
    intro a ha; exact this a (by simpa using ha)

/-! ### character-class facts: arithmetic on code points -/

theorem tabnl_c0sp {c : Char} (h : tabnl c = true) : c0sp c = true := by
  simp only [tabnl, c0sp, Bool.or_eq_true, beq_iff_eq, decide_eq_true_eq] at *; omega
theorem scheme_not_c0sp {c : Char} (h : schemeCh c = true) : c0sp c = false := by
  simp only [schemeCh, alpha, c0sp, Bool.or_eq_true, Bool.and_eq_true, beq_iff_eq, decide_eq_true_eq,
    decide_eq_false_iff_not] at *; omega
theorem scheme_not_pyWs {c : Char} (h : schemeCh c = true) : pyWs c = false := by
  simp only [schemeCh, alpha, pyWs, Bool.or_eq_true, Bool.and_eq_true, beq_iff_eq, decide_eq_true_eq,
    Bool.or_eq_false_iff, Bool.and_eq_false_iff, decide_eq_false_iff_not, beq_eq_false_iff_ne, ne_eq] at *
  omega
theorem scheme_not_colon {c : Char} (h : schemeCh c = true) : isColon c = false := by
  simp only [schemeCh, alpha, isColon, Bool.or_eq_true, Bool.and_eq_true, beq_iff_eq, decide_eq_true_eq,
    beq_eq_false_iff_ne, ne_eq] at *; omega
theorem colon_not_c0sp {c : Char} (h : isColon c = true) : c0sp c = false := by
  simp only [isColon, c0sp, beq_iff_eq, decide_eq_false_iff_not] at *; omega
theorem colon_not_scheme {c : Char} (h : isColon c = true) : schemeCh c = false := by
  cases hs : schemeCh c
  · rfl
  · have := scheme_not_colon hs; simp [h] at this
theorem pyWs_not_scheme {c : Char} (h : pyWs c = true) : schemeCh c = false := by
  cases hs : schemeCh c
  · rfl
  · have := scheme_not_pyWs hs; simp [h] at this
theorem pyWs_not_colon {c : Char} (h : pyWs c = true) : isColon c = false := by
  simp only [isColon, pyWs, Bool.or_eq_true, Bool.and_eq_true, beq_iff_eq, decide_eq_true_eq,
    beq_eq_false_iff_ne, ne_eq] at *; omega
theorem pyWs_not_alpha {c : Char} (h : pyWs c = true) : alpha c = false := by
  have := pyWs_not_scheme h
  simp only [schemeCh, Bool.or_eq_false_iff] at this
  exact this.1.1.1.1




theorem not_c0sp_not_tabnl {c : Char} (h : c0sp c = false) : tabnl c = false := by
  cases ht : tabnl c
  · rfl
  · have := tabnl_c0sp ht; rw [h] at this; cases this

theorem map_eq_self (f : Char → Char) (l : Str) (h : ∀ x ∈ l, f x = x) : l.map f = l := by
  induction l with
  | nil => rfl
  | cons x xs ih =>
    simp only [map_cons, cons.injEq]
    exact ⟨h x (by simp), ih (fun y hy => h y (by simp [hy]))⟩

theorem goodEntry_spec {a : Str} (h : goodEntry a = true) :
    ∃ c r, a = c :: r ∧ alpha c = true ∧ (∀ x ∈ a, schemeCh x = true) ∧ a.map Char.toLower = a := by
  unfold goodEntry at h
  cases a with
  | nil => simp at h
  | cons c r =>
    simp only [Bool.and_eq_true, all_eq_true, beq_iff_eq] at h
    refine ⟨c, r, rfl, h.1, fun x hx => (h.2 x hx).1, ?_⟩
    have : ∀ x ∈ c :: r, Char.toLower x = x := fun x hx => (h.2 x hx).2
    exact map_eq_self _ _ this

/-- filtering TAB/LF/CR does nothing to scheme characters -/
theorem filter_scheme (a : Str) (h : ∀ x ∈ a, schemeCh x = true) : a.filter (fun c => !tabnl c) = a := by
  apply List.filter_eq_self.mpr
  intro x hx
  have := scheme_not_c0sp (h x hx)
  exact not_c0sp_not_tabnl this |> fun h => by simp [h]


theorem rstrip_cons (p : Char → Bool) (c : Char) (y : Str) (hc : p c = false) :
    rstrip p (c :: y) = c :: rstrip p y := by
  have := rstrip_append_cons p [] c y hc; simpa using this

theorem rstrip_append_not (p : Char → Bool) (a y : Str) (h : ∀ x ∈ a, p x = false) :
    rstrip p (a ++ y) = a ++ rstrip p y := by
  induction a with
  | nil => rfl
  | cons x xs ih =>
    rw [cons_append, rstrip_cons p x _ (h x (by simp)), ih (fun z hz => h z (by simp [hz]))]; rfl

theorem rstrip_sub (p : Char → Bool) (s : Str) : ∀ x ∈ rstrip p s, x ∈ s := by
  intro x hx
  obtain ⟨t, ht, _⟩ := rstrip_decomp p s
  rw [ht]; simp [hx]

/-- once the preprocessed string starts with a non-alphabetic character there is no scheme -/
theorem whatwg_none_of_head (uri : Str) (x : Char) (rest : Str)
    (h : (strip c0sp uri).filter (fun c => !tabnl c) = x :: rest) (hx : alpha x = false) :
    whatwgScheme uri = none := by
  unfold whatwgScheme
  simp only [h, hx, Bool.false_eq_true, ↓reduceIte]


/-- shape lemmas: preprocessed input = scheme characters `c :: r` followed by `f` -/
theorem shape_aux (uri : Str) (c : Char) (r f : Str)
    (hs : (strip c0sp uri).filter (fun c => !tabnl c) = (c :: r) ++ f)
    (hc : alpha c = true) (hsch : ∀ x ∈ c :: r, schemeCh x = true) :
    whatwgScheme uri =
      (match f.dropWhile schemeCh with
       | d :: _ => if isColon d then some (((c :: r) ++ f.takeWhile schemeCh).map Char.toLower) else none
       | [] => none) := by
  unfold whatwgScheme
  simp only [hs, cons_append, hc, ↓reduceIte]
  rw [← cons_append, dropWhile_append_of_pos (by simpa using hsch),
    takeWhile_append_of_pos (by simpa using hsch)]
  rfl

theorem shape_nil (uri : Str) (c : Char) (r : Str)
    (hs : (strip c0sp uri).filter (fun c => !tabnl c) = (c :: r) ++ [])
    (hc : alpha c = true) (hsch : ∀ x ∈ c :: r, schemeCh x = true) : whatwgScheme uri = none := by
  rw [shape_aux uri c r [] hs hc hsch]; rfl

theorem shape_stop (uri : Str) (c d : Char) (r u : Str)
    (hs : (strip c0sp uri).filter (fun c => !tabnl c) = (c :: r) ++ d :: u)
    (hc : alpha c = true) (hsch : ∀ x ∈ c :: r, schemeCh x = true)
    (hd1 : schemeCh d = false) (hd2 : isColon d = false) : whatwgScheme uri = none := by
  rw [shape_aux uri c r (d :: u) hs hc hsch]
  simp only [dropWhile_cons, hd1, Bool.false_eq_true, ↓reduceIte, hd2]

theorem shape_colon (uri : Str) (c d : Char) (r u : Str)
    (hs : (strip c0sp uri).filter (fun c => !tabnl c) = (c :: r) ++ d :: u)
    (hc : alpha c = true) (hsch : ∀ x ∈ c :: r, schemeCh x = true)
    (hd : isColon d = true) : whatwgScheme uri = some ((c :: r).map Char.toLower) := by
  rw [shape_aux uri c r (d :: u) hs hc hsch]
  simp only [dropWhile_cons, takeWhile_cons, colon_not_scheme hd, Bool.false_eq_true, ↓reduceIte, hd,
    append_nil]

/-- The two-argument form: if the head before the first ':' of the Python-stripped URI is a good
    allow-list entry `a`, a WHATWG parser sees no scheme or exactly the scheme `a`. -/
theorem safe2_core (uri a : Str) (ha : goodEntry a = true) (hhead : pyHead uri = a) :
    whatwgScheme uri = none ∨ whatwgScheme uri = some a := by
  obtain ⟨c, r, hacr, hc, hsch, hlow⟩ := goodEntry_spec ha
  -- uri = w ++ m, w Python whitespace, m does not start with Python whitespace
  have hw : (uri.takeWhile pyWs).all pyWs = true := takeWhile_all _ _
  have huri : uri = uri.takeWhile pyWs ++ uri.dropWhile pyWs := by simp
  generalize hW : uri.takeWhile pyWs = w at hw huri
  generalize hM : uri.dropWhile pyWs = m at huri
  -- m = k ++ t, k = rstrip pyWs m, t whitespace
  obtain ⟨t, hmt, ht⟩ := rstrip_decomp pyWs m
  have hk : a = (rstrip pyWs m).takeWhile (fun c => !isColon c) := by
    rw [← hhead]; unfold pyHead strip lstrip; rw [hM]
  generalize hK : rstrip pyWs m = k at hmt hk
  -- k = a ++ k'
  have hkk : k = a ++ k.dropWhile (fun c => !isColon c) := by
    conv => lhs; rw [← takeWhile_append_dropWhile (p := fun c => !isColon c) (l := k)]
    rw [← hk]
  generalize hK' : k.dropWhile (fun c => !isColon c) = k' at hkk
  have hk'head : ∀ d u, k' = d :: u → isColon d = true := by
    intro d u hd
    have := dropWhile_head _ k d u (by rw [hK', hd])
    simpa using this
  -- m = a ++ (k' ++ t)
  have hm : m = a ++ (k' ++ t) := by rw [hmt, hkk, append_assoc]
  -- a's first char is alpha, hence neither whitespace class
  have hc_sch : schemeCh c = true := hsch c (by simp [hacr])
  have hc_not_c0 : c0sp c = false := scheme_not_c0sp hc_sch
  have ha_not_c0 : ∀ x ∈ a, c0sp x = false := fun x hx => scheme_not_c0sp (hsch x hx)
  -- split on whether the Python-whitespace prefix is entirely C0/space
  by_cases hwc : w.all c0sp = true
  · -- Case B: WHATWG strips the same prefix and then sees `a`
    have hl : lstrip c0sp uri = m := by
      unfold lstrip
      rw [huri, dropWhile_append_of_pos (by simpa [all_eq_true] using hwc), hm, hacr]
      simp [dropWhile_cons, hc_not_c0]
    have hstrip : strip c0sp uri = a ++ rstrip c0sp (k' ++ t) := by
      unfold strip; rw [hl, hm, rstrip_append_not c0sp a _ ha_not_c0]
    have hsch' : ∀ x ∈ c :: r, schemeCh x = true := by rw [← hacr]; exact hsch
    cases hk' : k' with
    | nil =>
      left
      subst hk'
      simp only [nil_append] at hstrip
      have ht' : ∀ x ∈ rstrip c0sp t, pyWs x = true := fun x hx => by
        have := rstrip_sub c0sp t x hx
        simp only [all_eq_true] at ht; exact ht x this
      have hs : (strip c0sp uri).filter (fun c => !tabnl c)
          = (c :: r) ++ filter (fun c => !tabnl c) (rstrip c0sp t) := by
        rw [hstrip, filter_append, filter_scheme a hsch, hacr]
      generalize hF : filter (fun c => !tabnl c) (rstrip c0sp t) = f at hs
      have hf : ∀ x ∈ f, pyWs x = true := fun x hx => by
        rw [← hF] at hx; exact ht' x (List.mem_filter.mp hx).1
      cases f with
      | nil => exact shape_nil uri c r hs hc hsch'
      | cons d u =>
        have hd := hf d (by simp)
        exact shape_stop uri c d r u hs hc hsch' (pyWs_not_scheme hd) (pyWs_not_colon hd)
    | cons d u =>
      right
      subst hk'
      have hd : isColon d = true := hk'head d u rfl
      have hd0 : c0sp d = false := colon_not_c0sp hd
      rw [cons_append, rstrip_cons c0sp d _ hd0] at hstrip
      have hdt : tabnl d = false := not_c0sp_not_tabnl hd0
      have hs : (strip c0sp uri).filter (fun c => !tabnl c)
          = (c :: r) ++ (d :: filter (fun c => !tabnl c) (rstrip c0sp (u ++ t))) := by
        rw [hstrip, filter_append, filter_scheme a hsch, hacr]
        simp only [filter_cons, hdt, Bool.not_false, ↓reduceIte]
      rw [shape_colon uri c d r _ hs hc hsch' hd, ← hacr, hlow]
  · -- Case A: some Python-whitespace char survives stripping and is not alphabetic
    left
    have hne : dropWhile c0sp w ≠ [] := by
      intro h
      apply hwc
      have := takeWhile_append_dropWhile (p := c0sp) (l := w)
      rw [h, append_nil] at this
      rw [← this]; exact takeWhile_all _ _
    cases hd : dropWhile c0sp w with
    | nil => exact absurd hd hne
    | cons x w2 =>
      have hx0 : c0sp x = false := dropWhile_head c0sp w x w2 hd
      have hxw : x ∈ w := by
        have : x ∈ dropWhile c0sp w := by rw [hd]; simp
        exact (List.dropWhile_sublist c0sp).subset this
      have hxpy : pyWs x = true := by simp only [all_eq_true] at hw; exact hw x hxw
      have hl : lstrip c0sp uri = x :: (w2 ++ m) := by
        unfold lstrip
        rw [huri, dropWhile_append, hd]; simp
      have hxt : tabnl x = false := not_c0sp_not_tabnl hx0
      have hs : (strip c0sp uri).filter (fun c => !tabnl c)
          = x :: filter (fun c => !tabnl c) (rstrip c0sp (w2 ++ m)) := by
        unfold strip; rw [hl, rstrip_cons c0sp x _ hx0]
        simp only [filter_cons, hxt, Bool.not_false, ↓reduceIte]
      exact whatwg_none_of_head uri x _ hs (pyWs_not_alpha hxpy)




end FeedVerif.Uri
