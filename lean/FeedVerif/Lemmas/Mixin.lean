/- Table facts about the regenerated handler tables, shared by the M-mixin property files. -/
import FeedVerif.Model.Mixin

namespace FeedVerif.Mixin

/-- every element the translator recognised as a simple date element has a `_start_` and an `_end_` handler -/
theorem date_names_have_handlers :
    Gen.Mixin.dateElementsL.all (fun e => hasStart e.1 && hasEnd e.1) = true := by decide +kernel

theorem dateKey_some_hasStart (h : Str) (k : Str × Str) (hk : dateKey h = some k) : hasStart h = true ∧ hasEnd h = true := by
  unfold dateKey at hk
  cases hf : Gen.Mixin.dateElementsL.find? (·.1 == h) with
  | none => rw [hf] at hk; cases hk
  | some e =>
    have hm := List.mem_of_find?_eq_some hf
    have he := List.find?_some hf
    have hall := List.all_eq_true.mp date_names_have_handlers e hm
    have : e.1 = h := by simpa using he
    rw [this] at hall
    simpa using hall

theorem dateKey_none_of_noStart (h : Str) (hno : hasStart h = false) : dateKey h = none := by
  cases hk : dateKey h with
  | none => rfl
  | some k => have := (dateKey_some_hasStart h k hk).1; rw [hno] at this; cases this

theorem dateKey_none_of_noEnd (h : Str) (hno : hasEnd h = false) : dateKey h = none := by
  cases hk : dateKey h with
  | none => rfl
  | some k => have := (dateKey_some_hasStart h k hk).2; rw [hno] at this; cases this

/-- the structural handler names are not date elements -/
theorem dateKey_structural : dateKey (S "rss") = none ∧ dateKey (S "channel") = none ∧ dateKey (S "feed") = none ∧
    dateKey (S "item") = none ∧ dateKey (S "entry") = none := by decide +kernel

/-! ### stage 2 (text constructs): table facts -/

/-- every element the translator recognised as a text construct (and every name that reaches the title handlers) has a `_start_` and an `_end_` handler -/
theorem content_names_have_handlers :
    Gen.Mixin.contentElementsL.all (fun e => hasStart e.1 && hasEnd e.1) = true ∧
    Gen.Mixin.titleHandlersL.all (fun e => hasStart e && hasEnd e) = true := by decide +kernel

theorem contentKey_some_handlers (h : Str) (k : Str × Str) (hk : contentKey h = some k) : hasStart h = true ∧ hasEnd h = true := by
  unfold contentKey at hk
  cases hf : Gen.Mixin.contentElementsL.find? (·.1 == h) with
  | none => rw [hf] at hk; cases hk
  | some e =>
    have hm := List.mem_of_find?_eq_some hf
    have he := List.find?_some hf
    have hall := List.all_eq_true.mp content_names_have_handlers.1 e hm
    have : e.1 = h := by simpa using he
    rw [this] at hall
    simpa using hall

theorem isTitle_handlers (h : Str) (ht : isTitle h = true) : hasStart h = true ∧ hasEnd h = true := by
  unfold isTitle at ht
  obtain ⟨e, hm, he⟩ := List.any_eq_true.mp ht
  have hall := List.all_eq_true.mp content_names_have_handlers.2 e hm
  have : e = h := by simpa using he
  rw [this] at hall
  simpa using hall

theorem contentKey_none_of_noStart (h : Str) (hno : hasStart h = false) : contentKey h = none := by
  cases hk : contentKey h with
  | none => rfl
  | some k => have := (contentKey_some_handlers h k hk).1; rw [hno] at this; cases this

theorem isTitle_false_of_noStart (h : Str) (hno : hasStart h = false) : isTitle h = false := by
  cases ht : isTitle h with
  | false => rfl
  | true => have := (isTitle_handlers h ht).1; rw [hno] at this; cases this

theorem contentKey_none_of_noEnd (h : Str) (hno : hasEnd h = false) : contentKey h = none := by
  cases hk : contentKey h with
  | none => rfl
  | some k => have := (contentKey_some_handlers h k hk).2; rw [hno] at this; cases this

theorem isTitle_false_of_noEnd (h : Str) (hno : hasEnd h = false) : isTitle h = false := by
  cases ht : isTitle h with
  | false => rfl
  | true => have := (isTitle_handlers h ht).2; rw [hno] at this; cases this

theorem contentEndKey_none_of_noEnd (h : Str) (hno : hasEnd h = false) : contentEndKey h = none := by
  unfold contentEndKey
  simp [isTitle_false_of_noEnd h hno, contentKey_none_of_noEnd h hno]

/-- the structural handler names and the date elements are not text constructs -/
theorem content_structural : contentEndKey (S "rss") = none ∧ contentEndKey (S "channel") = none ∧ contentEndKey (S "feed") = none ∧
    contentEndKey (S "item") = none ∧ contentEndKey (S "entry") = none := by decide +kernel

theorem date_not_content : Gen.Mixin.dateElementsL.all (fun e => (contentEndKey e.1).isNone) = true := by decide +kernel

theorem dateKey_not_content (h : Str) (kp : Str × Str) (hk : dateKey h = some kp) : contentEndKey h = none := by
  unfold dateKey at hk
  cases hf : Gen.Mixin.dateElementsL.find? (·.1 == h) with
  | none => rw [hf] at hk; cases hk
  | some e =>
    have hm := List.mem_of_find?_eq_some hf
    have he := List.find?_some hf
    have hall := List.all_eq_true.mp date_not_content e hm
    have : e.1 = h := by simpa using he
    rw [this] at hall
    simpa using hall

/-! ### stage 2 (text constructs): inversion lemmas used by every property file -/

theorem startContent_ok (s : Core) (k : Str) (a : List (Str × Str)) (ty : Str) (e : Bool) (c' : Core) (pe : Option Elem)
    (h : startContent s k a ty e = .ok (c', pe)) :
    c' = (pushContent s k a ty e).1 ∧ pe = some (pushContent s k a ty e).2 := by
  unfold startContent at h
  split at h
  · cases h
  · injection h with h; injection h with h1 h2; exact ⟨h1.symm, h2.symm⟩

/-- what `push_content` leaves untouched -/
theorem pushContent_frame (c : Core) (tag : Str) (a : List (Str × Str)) (d : Str) (e : Bool) :
    (pushContent c tag a d e).1.entries = c.entries ∧ (pushContent c tag a d e).1.inentry = c.inentry ∧
    (pushContent c tag a d e).1.feed = c.feed ∧ (pushContent c tag a d e).1.version = c.version ∧
    (pushContent c tag a d e).1.nsMap = c.nsMap ∧ (pushContent c tag a d e).1.nsInUse = c.nsInUse ∧
    (pushContent c tag a d e).1.infeed = c.infeed ∧ (pushContent c tag a d e).1.depth = c.depth ∧
    (pushContent c tag a d e).1.incontent = true := ⟨rfl, rfl, rfl, rfl, rfl, rfl, rfl, rfl, rfl⟩

theorem endContent_ok (o : Ops) (s s' : MSt) (h : Str) (hr : endContent o s h = .ok s') :
    ∃ k top rest, s.stack = top :: rest ∧ top.name = k ∧ contentEndKey h = some k ∧
      s' = ⟨endFinish o (afterTitle k (popContent o s k)), (popContent o s k).2.stack⟩ := by
  unfold endContent at hr
  split at hr
  · rename_i k top rest hk hst
    split at hr
    · cases hr
    · rename_i hne
      injection hr with hr
      exact ⟨k, top, rest, hst, by simpa using hne, hk, hr.symm⟩
  · cases hr

/-- `afterTitle` only ever touches `titleDepth` -/
theorem afterTitle_frame (k : Str) (r : Option Str × MSt) :
    (afterTitle k r).entries = r.2.c.entries ∧ (afterTitle k r).inentry = r.2.c.inentry ∧ (afterTitle k r).feed = r.2.c.feed ∧
    (afterTitle k r).version = r.2.c.version ∧ (afterTitle k r).nsMap = r.2.c.nsMap ∧ (afterTitle k r).nsInUse = r.2.c.nsInUse ∧
    (afterTitle k r).infeed = r.2.c.infeed ∧ (afterTitle k r).depth = r.2.c.depth ∧ (afterTitle k r).base = r.2.c.base ∧
    (afterTitle k r).incontent = r.2.c.incontent ∧ (afterTitle k r).cp = r.2.c.cp := by
  unfold afterTitle
  split
  · split
    · split <;> exact ⟨rfl, rfl, rfl, rfl, rfl, rfl, rfl, rfl, rfl, rfl, rfl⟩
    · exact ⟨rfl, rfl, rfl, rfl, rfl, rfl, rfl, rfl, rfl, rfl, rfl⟩
  · exact ⟨rfl, rfl, rfl, rfl, rfl, rfl, rfl, rfl, rfl, rfl, rfl⟩

end FeedVerif.Mixin
