/- Table facts about the regenerated handler tables, shared by the M-mixin property files. -/
import FeedVerif.Model.Mixin

namespace FeedVerif.Mixin

/-- every element the translator recognised as a simple date element has a `_start_` and an `_end_` handler -/
theorem date_names_have_handlers :
    Gen.Mixin.dateElementsL.all (fun e => hasStart e.1 && hasEnd e.1) = true := by decide +kernel

theorem dateKey_some_hasStart (h : Str) (k : Str × Str) (hk : dateKey h = some k) : hasStart h = true ∧ hasEnd h = true := by
  unfold dateKey at hk
  cases hf : Gen.Mixin.dateElementsL.find? (·.1 == h) with
  | none => rw [hf] at hk; cases hk
  | some e =>
    have hm := List.mem_of_find?_eq_some hf
    have he := List.find?_some hf
    have hall := List.all_eq_true.mp date_names_have_handlers e hm
    have : e.1 = h := by simpa using he
    rw [this] at hall
    simpa using hall

theorem dateKey_none_of_noStart (h : Str) (hno : hasStart h = false) : dateKey h = none := by
  cases hk : dateKey h with
  | none => rfl
  | some k => have := (dateKey_some_hasStart h k hk).1; rw [hno] at this; cases this

theorem dateKey_none_of_noEnd (h : Str) (hno : hasEnd h = false) : dateKey h = none := by
  cases hk : dateKey h with
  | none => rfl
  | some k => have := (dateKey_some_hasStart h k hk).2; rw [hno] at this; cases this

/-- the structural handler names are not date elements -/
theorem dateKey_structural : dateKey (S "rss") = none ∧ dateKey (S "channel") = none ∧ dateKey (S "feed") = none ∧
    dateKey (S "item") = none ∧ dateKey (S "entry") = none := by decide +kernel

/-! ### stage 2 (text constructs): table facts -/

/-- every element the translator recognised as a text construct (and every name that reaches the title handlers) has a `_start_` and an `_end_` handler -/
theorem content_names_have_handlers :
    Gen.Mixin.contentElementsL.all (fun e => hasStart e.1 && hasEnd e.1) = true ∧
    Gen.Mixin.titleHandlersL.all (fun e => hasStart e && hasEnd e) = true := by decide +kernel

theorem contentKey_some_handlers (h : Str) (k : Str × Str) (hk : contentKey h = some k) : hasStart h = true ∧ hasEnd h = true := by
  unfold contentKey at hk
  cases hf : Gen.Mixin.contentElementsL.find? (·.1 == h) with
  | none => rw [hf] at hk; cases hk
  | some e =>
    have hm := List.mem_of_find?_eq_some hf
    have he := List.find?_some hf
    have hall := List.all_eq_true.mp content_names_have_handlers.1 e hm
    have : e.1 = h := by simpa using he
    rw [this] at hall
    simpa using hall

theorem isTitle_handlers (h : Str) (ht : isTitle h = true) : hasStart h = true ∧ hasEnd h = true := by
  unfold isTitle at ht
  obtain ⟨e, hm, he⟩ := List.any_eq_true.mp ht
  have hall := List.all_eq_true.mp content_names_have_handlers.2 e hm
  have : e = h := by simpa using he
  rw [this] at hall
  simpa using hall

theorem contentKey_none_of_noStart (h : Str) (hno : hasStart h = false) : contentKey h = none := by
  cases hk : contentKey h with
  | none => rfl
  | some k => have := (contentKey_some_handlers h k hk).1; rw [hno] at this; cases this

theorem isTitle_false_of_noStart (h : Str) (hno : hasStart h = false) : isTitle h = false := by
  cases ht : isTitle h with
  | false => rfl
  | true => have := (isTitle_handlers h ht).1; rw [hno] at this; cases this

theorem contentKey_none_of_noEnd (h : Str) (hno : hasEnd h = false) : contentKey h = none := by
  cases hk : contentKey h with
  | none => rfl
  | some k => have := (contentKey_some_handlers h k hk).2; rw [hno] at this; cases this

theorem isTitle_false_of_noEnd (h : Str) (hno : hasEnd h = false) : isTitle h = false := by
  cases ht : isTitle h with
  | false => rfl
  | true => have := (isTitle_handlers h ht).2; rw [hno] at this; cases this

theorem contentEndKey_none_of_noEnd (h : Str) (hno : hasEnd h = false) : contentEndKey h = none := by
  unfold contentEndKey
  simp [isTitle_false_of_noEnd h hno, contentKey_none_of_noEnd h hno]

/-- the structural handler names and the date elements are not text constructs -/
theorem content_structural : contentEndKey (S "rss") = none ∧ contentEndKey (S "channel") = none ∧ contentEndKey (S "feed") = none ∧
    contentEndKey (S "item") = none ∧ contentEndKey (S "entry") = none := by decide +kernel

theorem date_not_content : Gen.Mixin.dateElementsL.all (fun e => (contentEndKey e.1).isNone) = true := by decide +kernel

theorem dateKey_not_content (h : Str) (kp : Str × Str) (hk : dateKey h = some kp) : contentEndKey h = none := by
  unfold dateKey at hk
  cases hf : Gen.Mixin.dateElementsL.find? (·.1 == h) with
  | none => rw [hf] at hk; cases hk
  | some e =>
    have hm := List.mem_of_find?_eq_some hf
    have he := List.find?_some hf
    have hall := List.all_eq_true.mp date_not_content e hm
    have : e.1 = h := by simpa using he
    rw [this] at hall
    simpa using hall

/-! ### stage 2 (text constructs): inversion lemmas used by every property file -/

theorem startContent_ok (s : Core) (k : Str) (a : List (Str × Str)) (ty : Str) (e : Bool) (c' : Core) (pe : Option Elem)
    (h : startContent s k a ty e = .ok (c', pe)) :
    c' = (pushContent s k a ty e).1 ∧ pe = some (pushContent s k a ty e).2 := by
  unfold startContent at h
  split at h
  · cases h
  · injection h with h; injection h with h1 h2; exact ⟨h1.symm, h2.symm⟩

/-- what `push_content` leaves untouched -/
theorem pushContent_frame (c : Core) (tag : Str) (a : List (Str × Str)) (d : Str) (e : Bool) :
    (pushContent c tag a d e).1.entries = c.entries ∧ (pushContent c tag a d e).1.inentry = c.inentry ∧
    (pushContent c tag a d e).1.feed = c.feed ∧ (pushContent c tag a d e).1.version = c.version ∧
    (pushContent c tag a d e).1.nsMap = c.nsMap ∧ (pushContent c tag a d e).1.nsInUse = c.nsInUse ∧
    (pushContent c tag a d e).1.infeed = c.infeed ∧ (pushContent c tag a d e).1.depth = c.depth ∧
    (pushContent c tag a d e).1.incontent = true := ⟨rfl, rfl, rfl, rfl, rfl, rfl, rfl, rfl, rfl⟩

theorem endContent_ok (o : Ops) (s s' : MSt) (h : Str) (hr : endContent o s h = .ok s') :
    ∃ k top rest, s.stack = top :: rest ∧ top.name = k ∧ contentEndKey h = some k ∧
      s' = ⟨endFinish o (afterTitle k (popContent o s k)), (popContent o s k).2.stack⟩ := by
  unfold endContent at hr
  split at hr
  · rename_i k top rest hk hst
    split at hr
    · cases hr
    · rename_i hne
      injection hr with hr
      exact ⟨k, top, rest, hst, by simpa using hne, hk, hr.symm⟩
  · cases hr

/-- `afterTitle` only ever touches `titleDepth` -/
theorem afterTitle_frame (k : Str) (r : Option Str × MSt) :
    (afterTitle k r).entries = r.2.c.entries ∧ (afterTitle k r).inentry = r.2.c.inentry ∧ (afterTitle k r).feed = r.2.c.feed ∧
    (afterTitle k r).version = r.2.c.version ∧ (afterTitle k r).nsMap = r.2.c.nsMap ∧ (afterTitle k r).nsInUse = r.2.c.nsInUse ∧
    (afterTitle k r).infeed = r.2.c.infeed ∧ (afterTitle k r).depth = r.2.c.depth ∧ (afterTitle k r).base = r.2.c.base ∧
    (afterTitle k r).incontent = r.2.c.incontent ∧ (afterTitle k r).cp = r.2.c.cp := by
  unfold afterTitle
  split
  · split
    · split <;> exact ⟨rfl, rfl, rfl, rfl, rfl, rfl, rfl, rfl, rfl, rfl, rfl⟩
    · exact ⟨rfl, rfl, rfl, rfl, rfl, rfl, rfl, rfl, rfl, rfl, rfl⟩
  · exact ⟨rfl, rfl, rfl, rfl, rfl, rfl, rfl, rfl, rfl, rfl, rfl⟩

/-! ### stage 3 (summary / description / content): inversion and frame lemmas -/

theorem startContentL_ok (s : Core) (k : Str) (a : List (Str × Str)) (ty : Str) (e : Bool) (c' : Core) (es : List Elem)
    (h : startContentL s k a ty e = .ok (c', es)) : c' = (pushContent s k a ty e).1 ∧ es = [(pushContent s k a ty e).2] := by
  unfold startContentL at h
  cases hs : startContent s k a ty e with
  | error w => rw [hs] at h; cases h
  | ok r =>
    obtain ⟨c, pe⟩ := r
    have hok := startContent_ok s k a ty e c pe hs
    rw [hs] at h
    rw [hok.2] at h
    simp only [Except.ok.injEq, Prod.mk.injEq] at h
    exact ⟨by rw [← h.1, hok.1], h.2.symm⟩

theorem startContentElem_ok (c : Core) (a : List (Str × Str)) (c' : Core) (es : List Elem)
    (h : startContentElem c a = .ok (c', es)) :
    c' = contentElemCore c a ∧ es = [⟨S "content", true, []⟩, ⟨S "content", true, []⟩] := by
  unfold startContentElem at h
  split at h
  · injection h with h; injection h with h1 h2; exact ⟨h1.symm, h2.symm⟩
  · cases h

/-- what the start handlers of stage 3 leave untouched, and that they open a text construct -/
theorem startExt_frame (s : Core) (kind : Str) (a : List (Str × Str)) (c' : Core) (es : List Elem)
    (h : startExt s kind a = .ok (c', es)) :
    c'.entries = s.entries ∧ c'.inentry = s.inentry ∧ c'.feed = s.feed ∧ c'.version = s.version ∧ c'.nsMap = s.nsMap ∧
    c'.nsInUse = s.nsInUse ∧ c'.infeed = s.infeed ∧ c'.depth = s.depth ∧ c'.incontent = true ∧ es ≠ [] := by
  unfold startExt at h
  simp only at h
  have L : ∀ (s0 : Core) k ty e, startContentL s0 k a ty e = .ok (c', es) → s0.entries = s.entries → s0.inentry = s.inentry → s0.feed = s.feed → s0.version = s.version → s0.nsMap = s.nsMap →
      s0.nsInUse = s.nsInUse → s0.infeed = s.infeed → s0.depth = s.depth →
      c'.entries = s.entries ∧ c'.inentry = s.inentry ∧ c'.feed = s.feed ∧ c'.version = s.version ∧ c'.nsMap = s.nsMap ∧
      c'.nsInUse = s.nsInUse ∧ c'.infeed = s.infeed ∧ c'.depth = s.depth ∧ c'.incontent = true ∧ es ≠ [] := by
    intro s0 k ty e hh h1 h2 h3 h4 h5 h6 h7 h8
    obtain ⟨hc, he⟩ := startContentL_ok _ _ _ _ _ _ _ hh
    rw [hc, he]
    exact ⟨h1, h2, h3, h4, h5, h6, h7, h8, rfl, by simp⟩
  have E : ∀ (s0 : Core), startContentElem s0 a = .ok (c', es) → s0.entries = s.entries → s0.inentry = s.inentry → s0.feed = s.feed → s0.version = s.version → s0.nsMap = s.nsMap →
      s0.nsInUse = s.nsInUse → s0.infeed = s.infeed → s0.depth = s.depth →
      c'.entries = s.entries ∧ c'.inentry = s.inentry ∧ c'.feed = s.feed ∧ c'.version = s.version ∧ c'.nsMap = s.nsMap ∧
      c'.nsInUse = s.nsInUse ∧ c'.infeed = s.infeed ∧ c'.depth = s.depth ∧ c'.incontent = true ∧ es ≠ [] := by
    intro s0 hh h1 h2 h3 h4 h5 h6 h7 h8
    obtain ⟨hc, he⟩ := startContentElem_ok _ _ _ _ hh
    rw [hc, he]
    exact ⟨h1, h2, h3, h4, h5, h6, h7, h8, rfl, by simp⟩
  split at h
  · split at h
    · exact E _ h rfl rfl rfl rfl rfl rfl rfl rfl
    · exact L _ _ _ _ h rfl rfl rfl rfl rfl rfl rfl rfl
  · split at h
    · exact L _ _ _ _ h rfl rfl rfl rfl rfl rfl rfl rfl
    · split at h
      · split at h
        · exact E _ h rfl rfl rfl rfl rfl rfl rfl rfl
        · exact L _ _ _ _ h rfl rfl rfl rfl rfl rfl rfl rfl
      · split at h
        · exact E _ h rfl rfl rfl rfl rfl rfl rfl rfl
        · split at h
          · exact L _ _ _ _ h rfl rfl rfl rfl rfl rfl rfl rfl
          · cases h

/-- the keys title / the plain text constructs push -/
def isPlainKey (n : Str) : Bool := n == S "title" || Gen.Mixin.contentElementsL.any (·.2.1 == n)

theorem ext_keys_not_plain : isPlainKey (S "content") = false ∧ isPlainKey (S "description") = false ∧ isPlainKey (S "summary") = false := by
  decide +kernel

theorem contentEndKey_plain (h k : Str) (hk : contentEndKey h = some k) : isPlainKey k = true := by
  unfold contentEndKey at hk
  unfold isPlainKey
  split at hk
  · injection hk with hk; rw [← hk]; rfl
  · unfold contentKey at hk
    cases hf : Gen.Mixin.contentElementsL.find? (·.1 == h) with
    | none => rw [hf] at hk; cases hk
    | some e =>
      rw [hf] at hk
      have hm := List.mem_of_find?_eq_some hf
      simp only [Option.map_some, Option.some.injEq] at hk
      have : Gen.Mixin.contentElementsL.any (·.2.1 == k) = true := List.any_eq_true.mpr ⟨e, hm, by rw [← hk]; simp⟩
      simp [this]

/-- the element on top after a start handler of stage 3 is `content`, `description` or `summary` — never a title / plain key -/
theorem startExt_top (s : Core) (kind : Str) (a : List (Str × Str)) (c' : Core) (es : List Elem)
    (h : startExt s kind a = .ok (c', es)) : ∃ e rest, es = e :: rest ∧ isPlainKey e.name = false := by
  obtain ⟨k1, k2, k3⟩ := ext_keys_not_plain
  unfold startExt at h
  simp only at h
  have L : ∀ (s0 : Core) k ty e, startContentL s0 k a ty e = .ok (c', es) → isPlainKey k = false → ∃ e rest, es = e :: rest ∧ isPlainKey e.name = false := by
    intro s0 k ty e hh hk
    obtain ⟨_, he⟩ := startContentL_ok _ _ _ _ _ _ _ hh
    exact ⟨_, [], he, hk⟩
  have E : ∀ (s0 : Core), startContentElem s0 a = .ok (c', es) → ∃ e rest, es = e :: rest ∧ isPlainKey e.name = false := by
    intro s0 hh
    obtain ⟨_, he⟩ := startContentElem_ok _ _ _ _ hh
    exact ⟨_, _, he, k1⟩
  split at h
  · split at h
    · exact E _ h
    · exact L _ _ _ _ h k2
  · split at h
    · exact L _ _ _ _ h k2
    · split at h
      · split at h
        · exact E _ h
        · exact L _ _ _ _ h k3
      · split at h
        · exact E _ h
        · split at h
          · exact L _ _ _ _ h k1
          · cases h

/-- `saveDefault` touches the current context's dict only -/
theorem saveDefault_frame (c : Core) (k : Str) (v : V) :
    (saveDefault c k v).inentry = c.inentry ∧ (saveDefault c k v).version = c.version ∧ (saveDefault c k v).nsMap = c.nsMap ∧
    (saveDefault c k v).nsInUse = c.nsInUse ∧ (saveDefault c k v).infeed = c.infeed ∧ (saveDefault c k v).depth = c.depth ∧
    (saveDefault c k v).base = c.base ∧ (saveDefault c k v).incontent = c.incontent ∧ (saveDefault c k v).cp = c.cp ∧
    (saveDefault c k v).entries.drop 1 = c.entries.drop 1 ∧ (saveDefault c k v).entries.length = c.entries.length := by
  unfold saveDefault
  split
  · refine ⟨rfl, rfl, rfl, rfl, rfl, rfl, rfl, rfl, rfl, ?_, ?_⟩ <;> (cases c.entries <;> simp [updHead])
  · exact ⟨rfl, rfl, rfl, rfl, rfl, rfl, rfl, rfl, rfl, rfl, rfl⟩

/-- the complete entries (all but the one being filled) are untouched by `saveDefault` -/
theorem saveDefault_older (c : Core) (k : Str) (v : V) :
    (if (saveDefault c k v).inentry then (saveDefault c k v).entries.drop 1 else (saveDefault c k v).entries) =
    (if c.inentry then c.entries.drop 1 else c.entries) := by
  unfold saveDefault
  by_cases hin : c.inentry = true
  · simp only [hin, ↓reduceIte]
    cases c.entries <;> simp [updHead]
  · simp only [hin, Bool.false_eq_true, ↓reduceIte]

theorem saveDefault_nonempty (c : Core) (k : Str) (v : V) (h : c.entries ≠ []) : (saveDefault c k v).entries ≠ [] := by
  unfold saveDefault
  split
  · cases hc : c.entries with
    | nil => exact absurd hc h
    | cons e es => simp [updHead]
  · exact h

theorem endExt_ok (o : Ops) (s s' : MSt) (kind : Str) (h : endExt o s kind = .ok s') :
    s' = ⟨endFinish o (endExtCore o s kind), (popContent o s (endPlan s.c kind).1).2.stack⟩ := by
  unfold endExt at h
  injection h with h; exact h.symm

/-- what `endExtCore` preserves of the popped state, and that the text construct is left -/
theorem endExtCore_frame (o : Ops) (s : MSt) (kind : Str) :
    (endExtCore o s kind).inentry = (popContent o s (endPlan s.c kind).1).2.c.inentry ∧
    (endExtCore o s kind).version = (popContent o s (endPlan s.c kind).1).2.c.version ∧
    (endExtCore o s kind).nsMap = (popContent o s (endPlan s.c kind).1).2.c.nsMap ∧
    (endExtCore o s kind).incontent = false ∧
    (endExtCore o s kind).entries.drop 1 = (popContent o s (endPlan s.c kind).1).2.c.entries.drop 1 ∧
    (endExtCore o s kind).entries.length = (popContent o s (endPlan s.c kind).1).2.c.entries.length := by
  have hpc : (popContent o s (endPlan s.c kind).1).2.c.incontent = false := rfl
  have hs : (endExtSaved o s kind).inentry = (popContent o s (endPlan s.c kind).1).2.c.inentry ∧
      (endExtSaved o s kind).version = (popContent o s (endPlan s.c kind).1).2.c.version ∧
      (endExtSaved o s kind).nsMap = (popContent o s (endPlan s.c kind).1).2.c.nsMap ∧
      (endExtSaved o s kind).incontent = false ∧
      (endExtSaved o s kind).entries.drop 1 = (popContent o s (endPlan s.c kind).1).2.c.entries.drop 1 ∧
      (endExtSaved o s kind).entries.length = (popContent o s (endPlan s.c kind).1).2.c.entries.length := by
    unfold endExtSaved
    by_cases hc : copyToSummary s.c kind = true
    · simp only [hc, ↓reduceIte]
      have hsd := saveDefault_frame (popContent o s (endPlan s.c kind).1).2.c (S "summary")
        (match (popContent o s (endPlan s.c kind).1).1 with | some v => .s v | none => .nil)
      exact ⟨hsd.1, hsd.2.1, hsd.2.2.1, hsd.2.2.2.2.2.2.2.1.trans hpc, hsd.2.2.2.2.2.2.2.2.2.1, hsd.2.2.2.2.2.2.2.2.2.2⟩
    · simp [hc, hpc]
  unfold endExtCore
  by_cases hp : (endPlan s.c kind).2.2 = true
  · simp only [hp, ↓reduceIte]
    exact hs
  · simp only [hp, Bool.false_eq_true, ↓reduceIte]
    exact hs

theorem endExtCore_older (o : Ops) (s : MSt) (kind : Str) :
    (if (endExtCore o s kind).inentry then (endExtCore o s kind).entries.drop 1 else (endExtCore o s kind).entries) =
    (if (popContent o s (endPlan s.c kind).1).2.c.inentry then (popContent o s (endPlan s.c kind).1).2.c.entries.drop 1
     else (popContent o s (endPlan s.c kind).1).2.c.entries) := by
  have hs : (if (endExtSaved o s kind).inentry then (endExtSaved o s kind).entries.drop 1 else (endExtSaved o s kind).entries) =
      (if (popContent o s (endPlan s.c kind).1).2.c.inentry then (popContent o s (endPlan s.c kind).1).2.c.entries.drop 1
       else (popContent o s (endPlan s.c kind).1).2.c.entries) := by
    unfold endExtSaved
    by_cases hc : copyToSummary s.c kind = true
    · simp only [hc, ↓reduceIte]
      exact saveDefault_older _ _ _
    · simp only [hc, Bool.false_eq_true, ↓reduceIte]
  unfold endExtCore
  by_cases hp : (endPlan s.c kind).2.2 = true
  · simp only [hp, ↓reduceIte]; exact hs
  · simp only [hp, Bool.false_eq_true, ↓reduceIte]; exact hs

theorem endExtCore_nonempty (o : Ops) (s : MSt) (kind : Str) (h : (popContent o s (endPlan s.c kind).1).2.c.entries ≠ []) :
    (endExtCore o s kind).entries ≠ [] := by
  have hs : (endExtSaved o s kind).entries ≠ [] := by
    unfold endExtSaved
    by_cases hc : copyToSummary s.c kind = true
    · simp only [hc, ↓reduceIte]; exact saveDefault_nonempty _ _ _ h
    · simp only [hc, Bool.false_eq_true, ↓reduceIte]; exact h
  unfold endExtCore
  by_cases hp : (endPlan s.c kind).2.2 = true
  · simp only [hp, ↓reduceIte]; exact hs
  · simp only [hp, Bool.false_eq_true, ↓reduceIte]; exact hs

/-- table facts about the hand-modelled kinds: they have handlers, are not structural, not date elements, not title / plain text constructs -/
theorem ext_names_facts :
    Gen.Mixin.handModelledL.all (fun e => hasStart e.1 && hasEnd e.1 && (dateKey e.1).isNone && (contentEndKey e.1).isNone &&
      !(e.1 == S "rss") && !(e.1 == S "channel") && !(e.1 == S "feed") && !(e.1 == S "item") && !(e.1 == S "entry")) = true := by decide +kernel

theorem extKind_facts (h kind : Str) (hk : extKind h = some kind) :
    hasStart h = true ∧ hasEnd h = true ∧ dateKey h = none ∧ contentEndKey h = none ∧
    (h == S "rss") = false ∧ (h == S "channel") = false ∧ (h == S "feed") = false ∧ (h == S "item") = false ∧ (h == S "entry") = false := by
  unfold extKind at hk
  cases hf : Gen.Mixin.handModelledL.find? (·.1 == h) with
  | none => rw [hf] at hk; cases hk
  | some e =>
    have hm := List.mem_of_find?_eq_some hf
    have he := List.find?_some hf
    have hall := List.all_eq_true.mp ext_names_facts e hm
    have : e.1 = h := by simpa using he
    rw [this] at hall
    simp only [Bool.and_eq_true, Bool.not_eq_true', Option.isNone_iff_eq_none] at hall
    obtain ⟨⟨⟨⟨⟨⟨⟨⟨a, b⟩, c⟩, d⟩, e1⟩, e2⟩, e3⟩, e4⟩, e5⟩ := hall
    exact ⟨a, b, c, d, e1, e2, e3, e4, e5⟩

theorem extKind_none_of_noStart (h : Str) (hno : hasStart h = false) : extKind h = none := by
  cases hk : extKind h with
  | none => rfl
  | some k => have := (extKind_facts h k hk).1; rw [hno] at this; cases this

theorem extKind_none_of_noEnd (h : Str) (hno : hasEnd h = false) : extKind h = none := by
  cases hk : extKind h with
  | none => rfl
  | some k => have := (extKind_facts h k hk).2.1; rw [hno] at this; cases this

theorem dateKey_not_ext (h : Str) (kp : Str × Str) (hk : dateKey h = some kp) : extKind h = none := by
  cases hx : extKind h with
  | none => rfl
  | some kind => have := (extKind_facts h kind hx).2.2.1; rw [hk] at this; cases this

theorem isTitle_not_ext (h : Str) (ht : isTitle h = true) : extKind h = none := by
  cases hx : extKind h with
  | none => rfl
  | some kind =>
    have := (extKind_facts h kind hx).2.2.2.1
    unfold contentEndKey at this
    simp [ht] at this

/-! ### stage 4 (link, guid / id): table facts, frame and inversion lemmas -/

/-- table facts about the stage-4 / 5 kinds: they have a start handler (enclosure has no end handler), are not structural, not date elements, not text
constructs, not stage-3 kinds -/
theorem lg_names_facts :
    Gen.Mixin.stage4L.all (fun e => hasStart e.1 && (dateKey e.1).isNone && (contentEndKey e.1).isNone && (extKind e.1).isNone &&
      !(e.1 == S "rss") && !(e.1 == S "channel") && !(e.1 == S "feed") && !(e.1 == S "item") && !(e.1 == S "entry")) = true := by decide +kernel

theorem lgKind_facts (h kind : Str) (hk : lgKind h = some kind) :
    hasStart h = true ∧ dateKey h = none ∧ contentEndKey h = none ∧ extKind h = none ∧
    (h == S "rss") = false ∧ (h == S "channel") = false ∧ (h == S "feed") = false ∧ (h == S "item") = false ∧ (h == S "entry") = false := by
  unfold lgKind at hk
  cases hf : Gen.Mixin.stage4L.find? (·.1 == h) with
  | none => rw [hf] at hk; cases hk
  | some e =>
    have hm := List.mem_of_find?_eq_some hf
    have he := List.find?_some hf
    have hall := List.all_eq_true.mp lg_names_facts e hm
    have : e.1 = h := by simpa using he
    rw [this] at hall
    simp only [Bool.and_eq_true, Bool.not_eq_true', Option.isNone_iff_eq_none] at hall
    obtain ⟨⟨⟨⟨⟨⟨⟨⟨a, c⟩, d⟩, x⟩, e1⟩, e2⟩, e3⟩, e4⟩, e5⟩ := hall
    exact ⟨a, c, d, x, e1, e2, e3, e4, e5⟩

theorem lgKind_none_of_noStart (h : Str) (hno : hasStart h = false) : lgKind h = none := by
  cases hk : lgKind h with
  | none => rfl
  | some k => have := (lgKind_facts h k hk).1; rw [hno] at this; cases this

theorem dateKey_not_lg (h : Str) (kp : Str × Str) (hk : dateKey h = some kp) : lgKind h = none := by
  cases hx : lgKind h with
  | none => rfl
  | some kind => have := (lgKind_facts h kind hx).2.1; rw [hk] at this; cases this

theorem isTitle_not_lg (h : Str) (ht : isTitle h = true) : lgKind h = none := by
  cases hx : lgKind h with
  | none => rfl
  | some kind =>
    have := (lgKind_facts h kind hx).2.2.1
    unfold contentEndKey at this
    simp [ht] at this

theorem contentKey_not_lg (h : Str) (k : Str × Str) (hk : contentKey h = some k) : lgKind h = none := by
  cases hx : lgKind h with
  | none => rfl
  | some kind =>
    have := (lgKind_facts h kind hx).2.2.1
    unfold contentEndKey at this
    split at this
    · cases this
    · rw [hk] at this; cases this

theorem lg_structural : lgKind (S "rss") = none ∧ lgKind (S "channel") = none ∧ lgKind (S "feed") = none ∧
    lgKind (S "item") = none ∧ lgKind (S "entry") = none := by decide +kernel

/-- what the stage-4 handlers (and `pop`, `_save`) leave untouched: everything but the feed dict, the dict of the entry being filled, and
their own two flags -/
def Frame4 (c c' : Core) : Prop :=
  c'.inentry = c.inentry ∧ c'.version = c.version ∧ c'.nsMap = c.nsMap ∧ c'.nsInUse = c.nsInUse ∧ c'.infeed = c.infeed ∧
  c'.depth = c.depth ∧ c'.base = c.base ∧ c'.incontent = c.incontent ∧ c'.cp = c.cp ∧
  c'.entries.drop 1 = c.entries.drop 1 ∧ c'.entries.length = c.entries.length ∧ (c.inentry = false → c'.entries = c.entries)

theorem Frame4.refl (c : Core) : Frame4 c c := ⟨rfl, rfl, rfl, rfl, rfl, rfl, rfl, rfl, rfl, rfl, rfl, fun _ => rfl⟩

theorem Frame4.trans {a b c : Core} (h1 : Frame4 a b) (h2 : Frame4 b c) : Frame4 a c :=
  ⟨h2.1.trans h1.1, h2.2.1.trans h1.2.1, h2.2.2.1.trans h1.2.2.1, h2.2.2.2.1.trans h1.2.2.2.1, h2.2.2.2.2.1.trans h1.2.2.2.2.1,
   h2.2.2.2.2.2.1.trans h1.2.2.2.2.2.1, h2.2.2.2.2.2.2.1.trans h1.2.2.2.2.2.2.1, h2.2.2.2.2.2.2.2.1.trans h1.2.2.2.2.2.2.2.1,
   h2.2.2.2.2.2.2.2.2.1.trans h1.2.2.2.2.2.2.2.2.1, h2.2.2.2.2.2.2.2.2.2.1.trans h1.2.2.2.2.2.2.2.2.2.1,
   h2.2.2.2.2.2.2.2.2.2.2.1.trans h1.2.2.2.2.2.2.2.2.2.2.1,
   fun hi => (h2.2.2.2.2.2.2.2.2.2.2.2 (h1.1.trans hi)).trans (h1.2.2.2.2.2.2.2.2.2.2.2 hi)⟩

theorem Frame4.nonempty {c c' : Core} (h : Frame4 c c') (hne : c.entries ≠ []) : c'.entries ≠ [] := by
  intro h0
  have := h.2.2.2.2.2.2.2.2.2.2.1
  rw [h0] at this
  cases hc : c.entries with
  | nil => exact hne hc
  | cons e es => rw [hc] at this; simp at this

theorem saveDefault_frame4 (c : Core) (k : Str) (v : V) : Frame4 c (saveDefault c k v) := by
  have h := saveDefault_frame c k v
  refine ⟨h.1, h.2.1, h.2.2.1, h.2.2.2.1, h.2.2.2.2.1, h.2.2.2.2.2.1, h.2.2.2.2.2.2.1, h.2.2.2.2.2.2.2.1, h.2.2.2.2.2.2.2.2.1,
    h.2.2.2.2.2.2.2.2.2.1, h.2.2.2.2.2.2.2.2.2.2, ?_⟩
  intro hi
  unfold saveDefault
  simp [hi]

theorem putContext_frame4 (c : Core) (d : D) : Frame4 c (putContext c d) := by
  unfold putContext
  split
  · rename_i hin
    refine ⟨rfl, rfl, rfl, rfl, rfl, rfl, rfl, rfl, rfl, ?_, ?_, ?_⟩
    · cases c.entries <;> simp [updHead]
    · cases c.entries <;> simp [updHead]
    · intro hi; rw [hi] at hin; cases hin
  · exact Frame4.refl c

theorem pop_frame4 (o : Ops) (s : MSt) (el : Str) : Frame4 s.c (pop o s el).c := by
  unfold pop
  split
  · exact Frame4.refl _
  · split
    · exact Frame4.refl _
    · simp only
      split
      · exact Frame4.refl _
      · split
        · exact Frame4.refl _
        · split
          · rename_i hin
            refine ⟨rfl, rfl, rfl, rfl, rfl, rfl, rfl, rfl, rfl, ?_, ?_, ?_⟩
            · cases s.c.entries <;> simp [updHead]
            · cases s.c.entries <;> simp [updHead]
            · intro hi; rw [hi] at hin; cases hin
          · split
            · exact ⟨rfl, rfl, rfl, rfl, rfl, rfl, rfl, rfl, rfl, rfl, rfl, fun _ => rfl⟩
            · exact Frame4.refl _

/-- `pop` leaves the stack alone or removes its top -/
theorem pop_stack (o : Ops) (s : MSt) (el : Str) : (pop o s el).stack = s.stack ∨ ∃ top, s.stack = top :: (pop o s el).stack := by
  unfold pop
  split
  · exact .inl rfl
  · rename_i top rest hst
    split
    · exact .inl rfl
    · simp only
      split
      · exact .inr ⟨top, hst⟩
      · split
        · exact .inr ⟨top, hst⟩
        · split
          · exact .inr ⟨top, hst⟩
          · split
            · exact .inr ⟨top, hst⟩
            · exact .inr ⟨top, hst⟩

theorem flag_frame4 (c : Core) (a b : Bool) : Frame4 c { c with inauthor := a, incontributor := b } :=
  ⟨rfl, rfl, rfl, rfl, rfl, rfl, rfl, rfl, rfl, rfl, rfl, fun _ => rfl⟩

theorem pflag_frame4 (c : Core) (a : Bool) : Frame4 c { c with inpublisher := a } :=
  ⟨rfl, rfl, rfl, rfl, rfl, rfl, rfl, rfl, rfl, rfl, rfl, fun _ => rfl⟩

theorem startAuthorKinds_frame4 (c : Core) (kind : Str) (a : List (Str × Str)) (c' : Core) (es : List Elem)
    (h : startAuthorKinds c kind a = some (c', es)) : Frame4 c c' := by
  have P : ∀ (c0 : Core) (d : D), Frame4 c c0 → Frame4 c (putContext c0 d) := fun c0 d h0 => h0.trans (putContext_frame4 _ _)
  unfold startAuthorKinds at h
  split at h
  · injection h with h
    split at h
    · injection h with h1 _; rw [← h1]; exact P _ _ (flag_frame4 c true c.incontributor)
    · split at h
      · injection h with h1 _; rw [← h1]; exact flag_frame4 c true c.incontributor
      · injection h with h1 _; rw [← h1]; exact P _ _ (flag_frame4 c true c.incontributor)
  · split at h
    · injection h with h
      split at h
      · injection h with h1 _; rw [← h1]; exact P _ _ (flag_frame4 c c.inauthor true)
      · split at h
        · injection h with h1 _; rw [← h1]; exact flag_frame4 c c.inauthor true
        · injection h with h1 _; rw [← h1]; exact P _ _ (flag_frame4 c c.inauthor true)
    · split at h
      · injection h with h; injection h with h1 _; rw [← h1]; exact Frame4.refl c
      · split at h
        · injection h with h; injection h with h1 _; rw [← h1]; exact Frame4.refl c
        · split at h
          · injection h with h; injection h with h1 _; rw [← h1]; exact Frame4.refl c
          · split at h
            · injection h with h; injection h with h1 _; rw [← h1]; exact Frame4.refl c
            · split at h
              · injection h with h; injection h with h1 _; rw [← h1]; exact pflag_frame4 c true
              · split at h
                · injection h with h; injection h with h1 _; rw [← h1]; exact putContext_frame4 _ _
                · cases h

theorem savePart_frame4 (o : Ops) (c : Core) (k : Str) (v : Option Str) (b : Bool) : Frame4 c (savePart o c k v b) := by
  unfold savePart
  split
  · exact putContext_frame4 _ _
  · split
    · exact putContext_frame4 _ _
    · split
      · exact putContext_frame4 _ _
      · exact Frame4.refl c

theorem popPlain_frame (s : MSt) (el : Str) :
    (popPlain s el).2.c = s.c ∧ ((popPlain s el).2.stack = s.stack ∨ ∃ top, s.stack = top :: (popPlain s el).2.stack) := by
  unfold popPlain
  split
  · rename_i top rest hst
    split
    · exact ⟨rfl, .inl rfl⟩
    · exact ⟨rfl, .inr ⟨top, hst⟩⟩
  · exact ⟨rfl, .inl rfl⟩

/-- inversion of the stage-7 end handlers -/
theorem endAuthorKinds_ok (o : Ops) (s s1 : MSt) (kind : Str) (h : endAuthorKinds o s kind = some s1) :
    Frame4 s.c s1.c ∧ (s1.stack = s.stack ∨ ∃ top, s.stack = top :: s1.stack) := by
  unfold endAuthorKinds at h
  split at h
  · injection h with h; rw [← h]
    exact ⟨(pop_frame4 o s _).trans ((flag_frame4 _ false _).trans (putContext_frame4 _ _)), pop_stack o s _⟩
  · split at h
    · injection h with h; rw [← h]
      exact ⟨(pop_frame4 o s _).trans (flag_frame4 _ _ false), pop_stack o s _⟩
    · split at h
      · injection h with h; rw [← h]
        have hp := popPlain_frame s (S "name")
        exact ⟨by simp only; rw [← hp.1]; exact savePart_frame4 _ _ _ _ _, hp.2⟩
      · split at h
        · injection h with h; rw [← h]
          have hp := popPlain_frame s (S "email")
          exact ⟨by simp only; rw [← hp.1]; exact savePart_frame4 _ _ _ _ _, hp.2⟩
        · split at h
          · injection h with h; rw [← h]
            exact ⟨(pop_frame4 o s _).trans (savePart_frame4 _ _ _ _ _), pop_stack o s _⟩
          · split at h
            · injection h with h; rw [← h]
              exact ⟨(pop_frame4 o s _).trans (putContext_frame4 _ _), pop_stack o s _⟩
            · split at h
              · injection h with h; rw [← h]
                exact ⟨(pop_frame4 o s _).trans ((pflag_frame4 _ false).trans (putContext_frame4 _ _)), pop_stack o s _⟩
              · split at h
                · injection h with h; rw [← h]
                  exact ⟨pop_frame4 o s _, pop_stack o s _⟩
                · split at h
                  · injection h with h; rw [← h]
                    exact ⟨(pop_frame4 o s _).trans (putContext_frame4 _ _), pop_stack o s _⟩
                  · cases h

theorem startLG_frame4 (o : Ops) (c : Core) (kind : Str) (a : List (Str × Str)) (c' : Core) (es : List Elem)
    (h : startLG o c kind a = .ok (c', es)) : Frame4 c c' := by
  unfold startLG at h
  split at h
  · unfold startLink at h
    simp only at h
    split at h
    · injection h with h; injection h with h1 _; rw [← h1]
      exact Frame4.trans (c := putContext _ _) (b := { c with isentrylink := _ }) (Frame4.refl c) (putContext_frame4 _ _)
    · split at h
      · injection h with h; injection h with h1 _; rw [← h1]
        exact Frame4.trans (c := putContext _ _) (b := { c with isentrylink := _ }) (Frame4.refl c) (putContext_frame4 _ _)
      · injection h with h; injection h with h1 _; rw [← h1]
        exact Frame4.trans (c := putContext _ _) (b := { c with isentrylink := _ }) (Frame4.refl c) (putContext_frame4 _ _)
  · split at h
    · injection h with h; injection h with h1 _; rw [← h1]; exact Frame4.refl c
    · split at h
      · injection h with h; injection h with h1 _; rw [← h1]; exact putContext_frame4 _ _
      · split at h
        · injection h with h; injection h with h1 _; rw [← h1]
          unfold startEnclosure
          simp only
          split <;> exact putContext_frame4 _ _
        · split at h
          · injection h with h; injection h with h1 _; rw [← h1]; exact putContext_frame4 _ _
          · split at h
            · rename_i r hr
              injection h with h
              rw [h] at hr
              exact startAuthorKinds_frame4 c kind a c' es hr
            · cases h

theorem popLink_frame4 (o : Ops) (s : MSt) :
    Frame4 s.c (popLink o s).c ∧ ((popLink o s).stack = s.stack ∨ ∃ top, s.stack = top :: (popLink o s).stack) := by
  unfold popLink
  split
  · exact ⟨Frame4.refl _, .inl rfl⟩
  · rename_i top rest hst
    split
    · exact ⟨Frame4.refl _, .inl rfl⟩
    · split
      · exact ⟨Frame4.refl _, .inr ⟨top, hst⟩⟩
      · simp only
        split
        · exact ⟨putContext_frame4 _ _, .inr ⟨top, hst⟩⟩
        · split
          · exact ⟨Frame4.refl _, .inr ⟨top, hst⟩⟩
          · exact ⟨Frame4.refl _, .inr ⟨top, hst⟩⟩

theorem endGuidCore_frame4 (o : Ops) (s : MSt) : Frame4 s.c (endGuidCore o s) := by
  unfold endGuidCore
  simp only
  split
  · exact (pop_frame4 o s _).trans ((saveDefault_frame4 _ _ _).trans (saveDefault_frame4 _ _ _))
  · exact (pop_frame4 o s _).trans (saveDefault_frame4 _ _ _)

theorem endFinish_frame (o : Ops) (c : Core) :
    (endFinish o c).entries = c.entries ∧ (endFinish o c).inentry = c.inentry ∧ (endFinish o c).feed = c.feed ∧ (endFinish o c).version = c.version ∧
    (endFinish o c).nsMap = c.nsMap ∧ (endFinish o c).nsInUse = c.nsInUse ∧ (endFinish o c).infeed = c.infeed ∧
    (endFinish o c).incontent = c.incontent ∧ (endFinish o c).cp = c.cp := ⟨rfl, rfl, rfl, rfl, rfl, rfl, rfl, rfl, rfl⟩

/-- inversion of the stage-4 end handlers: the result is `endFinish` of a core in the frame of the old one, over the old stack or its tail -/
theorem endLG_ok (o : Ops) (s s' : MSt) (kind : Str) (h : endLG o s kind = .ok s') :
    ∃ c1 st, Frame4 s.c c1 ∧ s' = ⟨endFinish o c1, st⟩ ∧ (st = s.stack ∨ ∃ top, s.stack = top :: st) := by
  unfold endLG at h
  split at h
  · injection h with h
    obtain ⟨hf, hst⟩ := popLink_frame4 o s
    exact ⟨{ (popLink o s).c with isentrylink := false }, (popLink o s).stack, hf, h.symm, hst⟩
  · split at h
    · injection h with h
      exact ⟨endGuidCore o s, (pop o s (S "id")).stack, endGuidCore_frame4 o s, h.symm, pop_stack o s _⟩
    · split at h
      · injection h with h
        exact ⟨_, (pop o s (S "category")).stack, (pop_frame4 o s _).trans (putContext_frame4 _ _), h.symm, pop_stack o s _⟩
      · split at h
        · injection h with h
          exact ⟨_, (pop o s (S "enclosure")).stack, pop_frame4 o s _, h.symm, pop_stack o s _⟩
        · split at h
          · rename_i s1 hs1
            injection h with h
            obtain ⟨hf, hst⟩ := endAuthorKinds_ok o s s1 kind hs1
            exact ⟨s1.c, s1.stack, hf, h.symm, hst⟩
          · cases h

/-! ### which kinds the stage-4 / 5 / 7 handlers accept: functions of the kind alone (the handlers are total) -/

/-- the stage-7 kinds (plus cloud) -/
def akOk (kind : Str) : Bool :=
  kind == S "author" || kind == S "contributor" || kind == S "name" || kind == S "email" || kind == S "url" || kind == S "publisher" || kind == S "owner" || kind == S "cloud"

theorem startAuthorKinds_isSome (c : Core) (kind : Str) (a : List (Str × Str)) : (startAuthorKinds c kind a).isSome = akOk kind := by
  unfold startAuthorKinds akOk
  by_cases h1 : (kind == S "author") = true
  · simp [h1]
  by_cases h2 : (kind == S "contributor") = true
  · simp [h1, h2]
  by_cases h3 : (kind == S "name") = true
  · simp [h1, h2, h3]
  by_cases h4 : (kind == S "email") = true
  · simp [h1, h2, h3, h4]
  by_cases h5 : (kind == S "url") = true
  · simp [h1, h2, h3, h4, h5]
  by_cases h6 : (kind == S "publisher") = true
  · simp [h1, h2, h3, h4, h5, h6]
  by_cases h7 : (kind == S "owner") = true
  · simp [h1, h2, h3, h4, h5, h6, h7]
  by_cases h8 : (kind == S "cloud") = true
  · simp [h1, h2, h3, h4, h5, h6, h7, h8]
  · simp [h1, h2, h3, h4, h5, h6, h7, h8]

theorem endAuthorKinds_isSome (o : Ops) (s : MSt) (kind : Str) : (endAuthorKinds o s kind).isSome = (akOk kind || kind == S "generator") := by
  unfold endAuthorKinds akOk
  by_cases h1 : (kind == S "author") = true
  · simp [h1]
  by_cases h2 : (kind == S "contributor") = true
  · simp [h1, h2]
  by_cases h3 : (kind == S "name") = true
  · simp [h1, h2, h3]
  by_cases h4 : (kind == S "email") = true
  · simp [h1, h2, h3, h4]
  by_cases h5 : (kind == S "url") = true
  · simp [h1, h2, h3, h4, h5]
  by_cases h6 : (kind == S "publisher") = true
  · simp [h1, h2, h3, h4, h5, h6]
  by_cases h7 : (kind == S "owner") = true
  · simp [h1, h2, h3, h4, h5, h6, h7]
  by_cases h8 : (kind == S "cloud") = true
  · simp [h1, h2, h3, h4, h5, h6, h7, h8]
  by_cases h9 : (kind == S "generator") = true
  · simp [h1, h2, h3, h4, h5, h6, h7, h8, h9]
  · simp [h1, h2, h3, h4, h5, h6, h7, h8, h9]

/-- the stage-4 / 5 / 7 kinds -/
def lgOk (kind : Str) : Bool :=
  kind == S "link" || kind == S "guid" || kind == S "category" || kind == S "enclosure" || kind == S "generator" || akOk kind

theorem ak_not_generator (kind : Str) (hg : (kind == S "generator") = false) : (akOk kind || kind == S "generator") = akOk kind := by simp [hg]

theorem startLG_isOk (o : Ops) (c : Core) (kind : Str) (a : List (Str × Str)) : (startLG o c kind a).isOk = lgOk kind := by
  unfold startLG lgOk
  by_cases h1 : (kind == S "link") = true
  · simp only [h1, ↓reduceIte, Bool.true_or]
    unfold startLink
    simp only
    split
    · rfl
    · split <;> rfl
  · simp only [h1, Bool.false_eq_true, ↓reduceIte, Bool.false_or]
    by_cases h2 : (kind == S "guid") = true
    · simp only [h2, ↓reduceIte, Bool.true_or]; rfl
    · simp only [h2, Bool.false_eq_true, ↓reduceIte, Bool.false_or]
      by_cases h3 : (kind == S "category") = true
      · simp only [h3, ↓reduceIte, Bool.true_or]; rfl
      · simp only [h3, Bool.false_eq_true, ↓reduceIte, Bool.false_or]
        by_cases h4 : (kind == S "enclosure") = true
        · simp only [h4, ↓reduceIte, Bool.true_or]; rfl
        · simp only [h4, Bool.false_eq_true, ↓reduceIte, Bool.false_or]
          by_cases h5 : (kind == S "generator") = true
          · simp only [h5, ↓reduceIte, Bool.true_or]; rfl
          · simp only [h5, Bool.false_eq_true, ↓reduceIte, Bool.false_or]
            rw [← startAuthorKinds_isSome c kind a]
            cases startAuthorKinds c kind a <;> rfl

theorem endLG_isOk (o : Ops) (s : MSt) (kind : Str) :
    (match endLG o s kind with | .ok _ => true | .unmodelled _ => false) = lgOk kind := by
  unfold endLG lgOk
  by_cases h1 : (kind == S "link") = true
  · simp only [h1, ↓reduceIte, Bool.true_or]
  · simp only [h1, Bool.false_eq_true, ↓reduceIte, Bool.false_or]
    by_cases h2 : (kind == S "guid") = true
    · simp only [h2, ↓reduceIte, Bool.true_or]
    · simp only [h2, Bool.false_eq_true, ↓reduceIte, Bool.false_or]
      by_cases h3 : (kind == S "category") = true
      · simp only [h3, ↓reduceIte, Bool.true_or]
      · simp only [h3, Bool.false_eq_true, ↓reduceIte, Bool.false_or]
        by_cases h4 : (kind == S "enclosure") = true
        · simp only [h4, ↓reduceIte, Bool.true_or]
        · simp only [h4, Bool.false_eq_true, ↓reduceIte, Bool.false_or]
          have hs := endAuthorKinds_isSome o s kind
          by_cases h5 : (kind == S "generator") = true
          · simp only [h5, Bool.or_true, Bool.true_or] at hs ⊢
            cases hk : endAuthorKinds o s kind with
            | none => rw [hk] at hs; cases hs
            | some s1 => rfl
          · have h5' : (kind == S "generator") = false := by simpa using h5
            simp only [h5', Bool.or_false, Bool.false_or] at hs ⊢
            rw [← hs]
            cases endAuthorKinds o s kind <;> rfl

/-- every kind the translator can put into the table is one the model accepts -/
theorem table_kinds_ok : Gen.Mixin.stage4L.all (fun e => lgOk e.2) = true := by decide +kernel

theorem lgKind_ok (h kind : Str) (hk : lgKind h = some kind) : lgOk kind = true := by
  unfold lgKind at hk
  cases hf : Gen.Mixin.stage4L.find? (·.1 == h) with
  | none => rw [hf] at hk; cases hk
  | some e =>
    rw [hf] at hk
    have hm := List.mem_of_find?_eq_some hf
    have hall := List.all_eq_true.mp table_kinds_ok e hm
    simp only [Option.map_some, Option.some.injEq] at hk
    rw [← hk]; exact hall

end FeedVerif.Mixin