/- Table facts about the regenerated handler tables, shared by the M-mixin property files. -/
import FeedVerif.Model.Mixin

namespace FeedVerif.Mixin

/-- every element the translator recognised as a simple date element has a `_start_` and an `_end_` handler -/
theorem date_names_have_handlers :
    Gen.Mixin.dateElementsL.all (fun e => hasStart e.1 && hasEnd e.1) = true := by decide +kernel

theorem dateKey_some_hasStart (h : Str) (k : Str × Str) (hk : dateKey h = some k) : hasStart h = true ∧ hasEnd h = true := by
  unfold dateKey at hk
  cases hf : Gen.Mixin.dateElementsL.find? (·.1 == h) with
  | none => rw [hf] at hk; cases hk
  | some e =>
    have hm := List.mem_of_find?_eq_some hf
    have he := List.find?_some hf
    have hall := List.all_eq_true.mp date_names_have_handlers e hm
    have : e.1 = h := by simpa using he
    rw [this] at hall
    simpa using hall

theorem dateKey_none_of_noStart (h : Str) (hno : hasStart h = false) : dateKey h = none := by
  cases hk : dateKey h with
  | none => rfl
  | some k => have := (dateKey_some_hasStart h k hk).1; rw [hno] at this; cases this

theorem dateKey_none_of_noEnd (h : Str) (hno : hasEnd h = false) : dateKey h = none := by
  cases hk : dateKey h with
  | none => rfl
  | some k => have := (dateKey_some_hasStart h k hk).2; rw [hno] at this; cases this

/-- the structural handler names are not date elements -/
theorem dateKey_structural : dateKey (S "rss") = none ∧ dateKey (S "channel") = none ∧ dateKey (S "feed") = none ∧
    dateKey (S "item") = none ∧ dateKey (S "entry") = none := by decide +kernel

end FeedVerif.Mixin
